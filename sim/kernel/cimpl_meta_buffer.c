/* libmpt++ overrides three C entry points with implementations of its own (mpt++/meta_buffer.cpp, meta_new.cpp,
 * node_new.cpp): in a program that links the C++ layer - every world does - the C implementations in
 * mptcore/array/meta_buffer.c, mptcore/meta/meta_new.c and mptcore/node/node_new.c would never run, although they
 * are what a C program gets (and are anchors of C15, C10 and C16).  The harness compiles those three files
 * unchanged, each into a unit of its own, under other names; link-time wrappers of the three entry points
 * (seams.cpp) choose per run which implementation the whole library and the harness reach.  No source change in /repo. */
#define mpt_meta_buffer    verif_c_meta_buffer
#define mpt_meta_arguments verif_c_meta_arguments
#include "array/meta_buffer.c"
