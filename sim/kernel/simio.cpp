#include "kernel/simio.hpp"
#include <sys/uio.h>
#include <sys/socket.h>
#include <poll.h>
#include <fcntl.h>
#include <cerrno>
#include <cstring>
#include <cstdarg>
#include <algorithm>

extern "C" {
ssize_t __real_readv(int, const struct iovec *, int);
ssize_t __real_writev(int, const struct iovec *, int);
int __real_poll(struct pollfd *, nfds_t, int);
int __real_fcntl(int, int, ...);
int __real_close(int);
int __real_dup(int);
int __real_getsockopt(int, int, int, void *, socklen_t *);
ssize_t __real_sendmsg(int, const struct msghdr *, int);
ssize_t __real_recvmsg(int, struct msghdr *, int);
ssize_t __real_sendto(int, const void *, size_t, int, const struct sockaddr *, socklen_t);
}

#include <cstdio>
#include <cstdlib>
static int dbg() { static int d = -1; if (d < 0) d = getenv("SIMIO_DEBUG") ? 1 : 0; return d; }
#define DBG(...) do { if (dbg()) fprintf(stderr, __VA_ARGS__); } while (0)
namespace simio {
State S;
void reset() { S = State(); }
int new_chan(size_t cap) { Chan c; c.cap = cap; S.chans.push_back(c); return (int) S.chans.size() - 1; }
int new_fd(int r, int w, int flags) {
	Fd f; f.open = true; f.rchan = r; f.wchan = w; f.flags = flags;
	S.fds.push_back(f); return 1000 + (int) S.fds.size() - 1;
}
Fd *get(int fd) {
	if (fd < 1000 || (size_t)(fd - 1000) >= S.fds.size()) return 0;
	return &S.fds[fd - 1000];
}
Chan *chan(int i) { return (i < 0 || (size_t) i >= S.chans.size()) ? 0 : &S.chans[i]; }
int new_dchan() { S.dchans.push_back(DChan()); return (int) S.dchans.size() - 1; }
int new_dgram_fd(int r, int w) { int fd = new_fd(r, w, O_RDWR | O_NONBLOCK); get(fd)->dgram = true; return fd; }
DChan *dchan(int i) { return (i < 0 || (size_t) i >= S.dchans.size()) ? 0 : &S.dchans[i]; }
bool ddeliver(int ci, size_t idx) { DChan *c = dchan(ci); if (!c || idx >= c->wire.size()) return false; c->avail.push_back(c->wire[idx]); c->wire.erase(c->wire.begin() + (ptrdiff_t) idx); return true; }
bool ddrop(int ci, size_t idx) { DChan *c = dchan(ci); if (!c || idx >= c->wire.size()) return false; c->wire.erase(c->wire.begin() + (ptrdiff_t) idx); return true; }
bool ddup(int ci, size_t idx) { DChan *c = dchan(ci); if (!c || idx >= c->wire.size()) return false; c->wire.push_back(c->wire[idx]); return true; }
size_t deliver(int ci, size_t n) {
	Chan *c = chan(ci); if (!c) return 0;
	size_t k = std::min(n, c->wire.size());
	for (size_t i = 0; i < k; ++i) { c->avail.push_back(c->wire.front()); c->wire.pop_front(); }
	return k;
}
}
using namespace simio;

extern "C" {
ssize_t __wrap_readv(int fd, const struct iovec *iov, int cnt) {
	if (fd < 1000) return __real_readv(fd, iov, cnt);
	Fd *f = get(fd);
	++S.readv_calls;
	if (!f || !f->open || f->rchan < 0 || f->dgram) { errno = EBADF; return -1; }
	Chan *c = chan(f->rchan);
	int fault = f->rfault; int64_t fa = f->rfa; f->rfault = 0;
	if (fault == F_EAGAIN) { ++S.f_eagain_r; errno = EAGAIN; return -1; }
	if (fault == F_EINTR) { ++S.f_eintr; errno = EINTR; return -1; }
	if (fault == F_EIO) { errno = EIO; return -1; }
	size_t want = 0;
	for (int i = 0; i < cnt; ++i) want += iov[i].iov_len;
	if (c->avail.empty()) {
		if (c->wclosed && c->wire.empty()) { ++S.f_eof; return 0; }
		errno = EAGAIN; return -1;
	}
	size_t n = std::min(want, c->avail.size());
	if (fault == F_SHORT && fa > 0 && (size_t) fa < n) { n = (size_t) fa; ++S.f_short_r; }
	size_t left = n;
	for (int i = 0; i < cnt && left; ++i) {
		size_t k = std::min(left, iov[i].iov_len);
		uint8_t *d = (uint8_t *) iov[i].iov_base;
		for (size_t j = 0; j < k; ++j) { d[j] = c->avail.front(); c->avail.pop_front(); }
		left -= k;
	}
	c->read += n;
	return (ssize_t) n;
}
ssize_t __wrap_writev(int fd, const struct iovec *iov, int cnt) {
	if (fd < 1000) return __real_writev(fd, iov, cnt);
	Fd *f = get(fd);
	++S.writev_calls;
	DBG("writev fd=%d f=%p open=%d wchan=%d\n", fd, (void *) f, f ? f->open : -1, f ? f->wchan : -9);
	if (!f || !f->open || f->wchan < 0 || f->dgram) { errno = EBADF; return -1; }
	Chan *c = chan(f->wchan);
	int fault = f->wfault; int64_t fa = f->wfa; f->wfault = 0;
	if (fault == F_EAGAIN) { ++S.f_eagain_w; errno = EAGAIN; return -1; }
	if (fault == F_EINTR) { ++S.f_eintr; errno = EINTR; return -1; }
	if (fault == F_EPIPE || c->rclosed) { ++S.f_epipe; errno = EPIPE; return -1; }
	if (fault == F_EIO) { errno = EIO; return -1; }
	size_t want = 0;
	for (int i = 0; i < cnt; ++i) want += iov[i].iov_len;
	size_t room = c->cap > c->wire.size() + c->avail.size() ? c->cap - c->wire.size() - c->avail.size() : 0;
	if (want && !room) { ++S.f_eagain_w; errno = EAGAIN; return -1; }
	size_t n = std::min(want, room);
	if (fault == F_SHORT && fa > 0 && (size_t) fa < n) { n = (size_t) fa; ++S.f_short_w; }
	size_t left = n;
	for (int i = 0; i < cnt && left; ++i) {
		size_t k = std::min(left, iov[i].iov_len);
		const uint8_t *s = (const uint8_t *) iov[i].iov_base;
		for (size_t j = 0; j < k; ++j) c->wire.push_back(s[j]);
		left -= k;
	}
	c->written += n;
	if (dbg()) { fprintf(stderr, "  writev fd=%d accepted %zu of %zu:", fd, n, want); size_t k = 0; for (auto it = c->wire.end() - (ptrdiff_t) n; it != c->wire.end() && k < 64; ++it, ++k) fprintf(stderr, " %02x", *it); fputc('\n', stderr); }
	return (ssize_t) n;
}
int __wrap_poll(struct pollfd *p, nfds_t n, int timeout) {
	bool sim = false;
	for (nfds_t i = 0; i < n; ++i) if (p[i].fd >= 1000) sim = true;
	if (!sim) return __real_poll(p, n, timeout);
	++S.polls;
	int ready = 0;
	for (nfds_t i = 0; i < n; ++i) {
		p[i].revents = 0;
		Fd *f = get(p[i].fd);
		if (!f || !f->open) { p[i].revents = POLLNVAL; ++ready; continue; }
		if (f->dgram) {
			DChan *c = dchan(f->rchan);
			if ((p[i].events & POLLIN) && c && !c->avail.empty()) p[i].revents |= POLLIN;
			if (p[i].events & POLLOUT) p[i].revents |= POLLOUT;
			if (p[i].revents) ++ready;
			continue;
		}
		if (f->rchan >= 0) {
			Chan *c = chan(f->rchan);
			if ((p[i].events & POLLIN) && !c->avail.empty()) p[i].revents |= POLLIN;
			if (c->wclosed && c->wire.empty() && c->avail.empty()) p[i].revents |= POLLHUP;
		}
		if (f->wchan >= 0) {
			Chan *c = chan(f->wchan);
			if (c->rclosed) p[i].revents |= POLLERR;
			else if ((p[i].events & POLLOUT) && c->wire.size() + c->avail.size() < c->cap) p[i].revents |= POLLOUT;
		}
		if (p[i].revents) ++ready;
	}
	if (!ready) {
		// discrete-event clock: deliveries are plan ops, so nothing can happen
		// while this call "waits"; the clock jumps by the timeout, no real sleep
		if (timeout > 0) S.now_ms += timeout;
		else if (timeout < 0) ++S.poll_block_forever;
	}
	return ready;
}
int __wrap_fcntl(int fd, int cmd, ...) {
	va_list ap; va_start(ap, cmd);
	long arg = va_arg(ap, long);
	va_end(ap);
	if (fd < 1000) return __real_fcntl(fd, cmd, arg);
	Fd *f = get(fd);
	if (!f || !f->open) { errno = EBADF; return -1; }
	if (cmd == F_GETFL) return f->flags;
	if (cmd == F_SETFL) { f->flags = (f->flags & O_ACCMODE) | ((int) arg & ~O_ACCMODE); return 0; }
	if (cmd == F_GETFD) return 0;
	if (cmd == F_SETFD) return 0;
	errno = EINVAL; return -1;
}
int __wrap_close(int fd) {
	if (fd < 1000) return __real_close(fd);
	Fd *f = get(fd);
	DBG("close fd=%d\n", fd);
	if (!f) { errno = EBADF; return -1; }
	++f->closes;
	if (!f->open) { errno = EBADF; return -1; }
	f->open = false;
	if (f->dgram) return 0;
	if (f->wchan >= 0) chan(f->wchan)->wclosed = true;
	if (f->rchan >= 0) chan(f->rchan)->rclosed = true;
	return 0;
}
int __wrap_dup(int fd) {
	if (fd < 1000) return __real_dup(fd);
	Fd *f = get(fd);
	if (!f || !f->open) { errno = EBADF; return -1; }
	if (f->dgram) return new_dgram_fd(f->rchan, f->wchan);
	return new_fd(f->rchan, f->wchan, f->flags);
}
int __wrap_getsockopt(int fd, int level, int name, void *val, socklen_t *len) {
	if (fd < 1000) return __real_getsockopt(fd, level, name, val, len);
	Fd *f = get(fd);
	if (!f || !f->open) { errno = EBADF; return -1; }
	if (level == SOL_SOCKET && name == SO_TYPE && val && len && *len >= sizeof(int)) {
		*(int *) val = f->dgram ? SOCK_DGRAM : SOCK_STREAM; *len = sizeof(int); return 0;
	}
	errno = ENOPROTOOPT; return -1;
}

static ssize_t dgram_send(int fd, const struct iovec *iov, size_t cnt) {
	Fd *f = get(fd);
	if (!f || !f->open || !f->dgram || f->wchan < 0) { errno = EBADF; return -1; }
	int fault = f->wfault; f->wfault = 0;
	if (fault == F_EAGAIN) { ++S.f_eagain_w; errno = EAGAIN; return -1; }
	if (fault == F_EINTR) { ++S.f_eintr; errno = EINTR; return -1; }
	if (fault == F_EPIPE) { ++S.f_epipe; errno = ECONNREFUSED; return -1; }
	if (fault == F_EIO) { errno = EIO; return -1; }
	std::vector<uint8_t> d;
	for (size_t i = 0; i < cnt; ++i) { const uint8_t *b = (const uint8_t *) iov[i].iov_base; d.insert(d.end(), b, b + iov[i].iov_len); }
	DChan *c = dchan(f->wchan);
	if (dbg()) { fprintf(stderr, "  send fd=%d datagram of %zu:", fd, d.size()); for (size_t k = 0; k < d.size() && k < 48; ++k) fprintf(stderr, " %02x", d[k]); fputc('\n', stderr); }
	c->wire.push_back(d); ++c->sent;
	return (ssize_t) d.size();
}
ssize_t __wrap_sendmsg(int fd, const struct msghdr *m, int flags) {
	if (fd < 1000) return __real_sendmsg(fd, m, flags);
	return dgram_send(fd, m->msg_iov, m->msg_iovlen);
}
ssize_t __wrap_sendto(int fd, const void *buf, size_t len, int flags, const struct sockaddr *a, socklen_t al) {
	if (fd < 1000) return __real_sendto(fd, buf, len, flags, a, al);
	struct iovec v; v.iov_base = (void *) buf; v.iov_len = len;
	return dgram_send(fd, &v, 1);
}
ssize_t __wrap_recvmsg(int fd, struct msghdr *m, int flags) {
	if (fd < 1000) return __real_recvmsg(fd, m, flags);
	Fd *f = get(fd);
	if (!f || !f->open || !f->dgram || f->rchan < 0) { errno = EBADF; return -1; }
	int fault = f->rfault; f->rfault = 0;
	if (fault == F_EAGAIN) { ++S.f_eagain_r; errno = EAGAIN; return -1; }
	if (fault == F_EINTR) { ++S.f_eintr; errno = EINTR; return -1; }
	if (fault == F_EIO) { errno = EIO; return -1; }
	DChan *c = dchan(f->rchan);
	if (c->avail.empty()) { errno = EAGAIN; return -1; }
	std::vector<uint8_t> d = c->avail.front(); c->avail.pop_front(); ++c->received;
	size_t off = 0;
	for (size_t i = 0; i < m->msg_iovlen && off < d.size(); ++i) {
		size_t k = std::min(d.size() - off, m->msg_iov[i].iov_len);
		memcpy(m->msg_iov[i].iov_base, d.data() + off, k); off += k;
	}
	m->msg_namelen = 0; m->msg_flags = 0;
	if (off < d.size()) { m->msg_flags |= MSG_TRUNC; ++c->truncated; }
	return (ssize_t) off;
}
}

// the simulated machine has no epoll: the notifier falls back to poll(), which knows the simulated descriptors
extern "C" int __wrap_epoll_create1(int) { errno = ENOSYS; return -1; }
