// link-time seams: allocator ledger + failure injection, library abort trap
#include "kernel/sim.hpp"
#include <cerrno>
#include <cstdlib>
#include <unordered_map>
#include <algorithm>
#include <sanitizer/asan_interface.h>
#include <execinfo.h>
#include <unistd.h>

extern "C" {
void *__real_malloc(size_t);
void *__real_calloc(size_t, size_t);
void *__real_realloc(void *, size_t);
void __real_free(void *);
char *__real_strdup(const char *);
void __real__mpt_abort(const char *, const char *, const char *, int);
void __real__ZdlPv(void *);
void __real__ZdlPvm(void *, size_t);
void __real__ZdaPv(void *);
}

namespace sim {
Seams g;

struct Info { size_t size; uint64_t serial; void *bt[14]; int nbt; };
static int dbg_bt() { static int d = -1; if (d < 0) d = getenv("VERIF_LEDGER_BT") ? 1 : 0; return d; }
static std::unordered_map<const void *, Info> *led;
static uint64_t serial;

static void led_add(const void *p, size_t n) {
	if (!p) return;
	++g.reent;
	if (!led) led = new std::unordered_map<const void *, Info>();
	Info inf; inf.size = n; inf.serial = ++serial; inf.nbt = dbg_bt() ? backtrace(inf.bt, 14) : 0;
	(*led)[p] = inf;
	--g.reent;
}
static void led_del(const void *p) {
	if (!p || !led) return;
	++g.reent;
	led->erase(p);
	--g.reent;
}
void ledger_reset() { ++g.reent; if (led) led->clear(); serial = 0; --g.reent; g.total_allocs = 0; }
size_t ledger_live() { return led ? led->size() : 0; }
size_t ledger_live_bytes() { size_t n = 0; if (led) for (auto &e : *led) n += e.second.size; return n; }
uint64_t ledger_mark() { return serial; }
size_t ledger_live_since(uint64_t mark) {
	size_t n = 0; if (led) for (auto &e : *led) if (e.second.serial > mark) ++n; return n;
}
bool ledger_is_live(const void *p) { return led && led->count(p); }
bool ledger_covers(const void *p) { if (led) for (auto &e : *led) if ((const char *) p >= (const char *) e.first && (const char *) p < (const char *) e.first + e.second.size) return true; return false; }
std::string ledger_describe(size_t max) {
	std::vector<std::pair<uint64_t, size_t>> v;
	if (led) for (auto &e : *led) v.emplace_back(e.second.serial, e.second.size);
	std::sort(v.begin(), v.end());
	std::string s;
	char b[64];
	for (size_t i = 0; i < v.size() && i < max; ++i) {
		snprintf(b, sizeof b, "%s#%llu:%zuB", i ? " " : "", (unsigned long long) v[i].first, v[i].second);
		s += b;
	}
	if (v.size() > max) s += " ...";
	if (dbg_bt() && led) for (auto &e : *led) { fprintf(stderr, "LEAKED block #%llu (%zu bytes) allocated at:\n", (unsigned long long) e.second.serial, e.second.size); backtrace_symbols_fd(e.second.bt, e.second.nbt, 2); }
	return s;
}
bool registry_global = false;
bool c_impl = false;
static inline bool should_fail() {
	++g.alloc_count; ++g.total_allocs;
	if ((g.fail_at && g.alloc_count == g.fail_at) || (g.fail_from && g.alloc_count >= g.fail_from)) {
		++g.fired; errno = ENOMEM; return true;
	}
	return false;
}
void pend(const char *sig, const char *fmt, ...) {
	if (g.pending) return;
	char buf[512];
	va_list ap; va_start(ap, fmt); vsnprintf(buf, sizeof buf, fmt, ap); va_end(ap);
	g.pending = true; g.pending_sig = sig; g.pending_detail = buf;
}
void check_pending() {
	if (g.pending) { g.pending = false; throw Violation{g.pending_sig, g.pending_detail}; }
}
void Block::alloc(size_t len, unsigned misalign) {
	release();
	misalign &= 15;
	raw = (uint8_t *) __real_malloc(len + misalign + (len + misalign == 0));
	p = raw + misalign; n = len;
	if (misalign) ASAN_POISON_MEMORY_REGION(raw, misalign);
}
void Block::expose(size_t visible) {
	if (visible > n) visible = n;
	ASAN_UNPOISON_MEMORY_REGION(p, n);
	if (visible < n) ASAN_POISON_MEMORY_REGION(p + visible, n - visible);
}
void Block::release() {
	if (raw) { ASAN_UNPOISON_MEMORY_REGION(raw, (p - raw) + n + (p - raw + n == 0)); __real_free(raw); }
	raw = p = 0; n = 0;
}
} // namespace sim

using namespace sim;
extern "C" {
void *__wrap_malloc(size_t n) {
	if (g.in_sut && !g.reent) {
		if (should_fail()) return 0;
		void *p = __real_malloc(n); led_add(p, n); return p;
	}
	return __real_malloc(n);
}
void *__wrap_calloc(size_t a, size_t b) {
	if (g.in_sut && !g.reent) {
		if (should_fail()) return 0;
		void *p = __real_calloc(a, b); led_add(p, a * b); return p;
	}
	return __real_calloc(a, b);
}
void *__wrap_realloc(void *o, size_t n) {
	if (g.in_sut && !g.reent) {
		if (should_fail()) return 0;
		bool known = ledger_is_live(o);
		void *p = __real_realloc(o, n);
		if (p || !n) { if (known) led_del(o); }
		if (p) led_add(p, n);
		return p;
	}
	bool known = !g.reent && ledger_is_live(o);
	void *p = __real_realloc(o, n);
	if (known && (p || !n)) { led_del(o); }
	return p;
}
void __wrap_free(void *p) {
	if (p && !g.reent) led_del(p);
	__real_free(p);
}
// operator new: objects the C++ layer creates inside a SUT call belong to the ledger as well (no fault injection here: the library is not written for bad_alloc).
// Only the library's own C++ objects are routed here (bin/mptbuild.py renames their references to operator new with objcopy);
// the harness allocates with the ordinary operator new, also when it runs inside a SUT call.
void *__verif_lib_Znwm(size_t n) { void *p = ::operator new(n); if (p && g.in_sut && !g.reent) led_add(p, n); return p; }
void *__verif_lib_Znam(size_t n) { void *p = ::operator new[](n); if (p && g.in_sut && !g.reent) led_add(p, n); return p; }
void __wrap__ZdaPv(void *p) { if (p && !g.reent) led_del(p); __real__ZdaPv(p); }
// operator delete: the C++ layer releases some malloc()ed objects with `delete this`
void __wrap__ZdlPv(void *p) { if (p && !g.reent) led_del(p); __real__ZdlPv(p); }
void __wrap__ZdlPvm(void *p, size_t n) { if (p && !g.reent) led_del(p); __real__ZdlPvm(p, n); }
char *__wrap_strdup(const char *s) {
	if (g.in_sut && !g.reent) {
		if (should_fail()) return 0;
		char *p = __real_strdup(s); led_add(p, p ? strlen(p) + 1 : 0); return p;
	}
	return __real_strdup(s);
}
// type registry entry points: what they allocate lives until the process ends (by design); a world that is not about the registry
// books those allocations to the process, so that first use of a type inside a run is not taken for a leak of that run
struct RegistryScope { int saved; RegistryScope() : saved(g.in_sut) { if (registry_global) g.in_sut = 0; } ~RegistryScope() { g.in_sut = saved; } };
const void *__real_mpt_type_traits(uintptr_t); const void *__real_mpt_interface_traits(uintptr_t); const void *__real_mpt_metatype_traits(uintptr_t);
const void *__real_mpt_named_traits(const char *, int); int __real_mpt_type_add(const void *); int __real_mpt_type_basic_add(size_t);
const void *__real_mpt_type_metatype_add(const char *); const void *__real_mpt_type_interface_add(const char *);
const void *__wrap_mpt_type_traits(uintptr_t t) { RegistryScope s; return __real_mpt_type_traits(t); }
const void *__wrap_mpt_interface_traits(uintptr_t t) { RegistryScope s; return __real_mpt_interface_traits(t); }
const void *__wrap_mpt_metatype_traits(uintptr_t t) { RegistryScope s; return __real_mpt_metatype_traits(t); }
const void *__wrap_mpt_named_traits(const char *n, int l) { RegistryScope s; return __real_mpt_named_traits(n, l); }
int __wrap_mpt_type_add(const void *t) { RegistryScope s; return __real_mpt_type_add(t); }
int __wrap_mpt_type_basic_add(size_t n) { RegistryScope s; return __real_mpt_type_basic_add(n); }
const void *__wrap_mpt_type_metatype_add(const char *n) { RegistryScope s; return __real_mpt_type_metatype_add(n); }
const void *__wrap_mpt_type_interface_add(const char *n) { RegistryScope s; return __real_mpt_type_interface_add(n); }
// the three C entry points libmpt++ overrides: per run either the override (as linked) or the C implementation (cimpl_*.c)
void *__real_mpt_meta_buffer(const void *); void *__real_mpt_meta_new(const void *); void *__real_mpt_node_new(size_t);
void *verif_c_meta_buffer(const void *); void *verif_c_meta_new(const void *); void *verif_c_node_new(size_t);
void *__wrap_mpt_meta_buffer(const void *a) { return sim::c_impl ? verif_c_meta_buffer(a) : __real_mpt_meta_buffer(a); }
void *__wrap_mpt_meta_new(const void *v) { return sim::c_impl ? verif_c_meta_new(v) : __real_mpt_meta_new(v); }
void *__wrap_mpt_node_new(size_t n) { return sim::c_impl ? verif_c_node_new(n) : __real_mpt_node_new(n); }
void __wrap__mpt_abort(const char *msg, const char *fcn, const char *file, int line) {
	if (g.jb_armed) { g.abort_msg = msg; longjmp(g.jb, 1); }
	__real__mpt_abort(msg, fcn, file, line);
	abort();
}
// classify sanitizer exits; leaks are attributed per run by the ledger instead
__attribute__((used)) const char *__asan_default_options() {
	return "exitcode=77:detect_leaks=0:abort_on_error=0:allocator_may_return_null=1:detect_stack_use_after_return=0:handle_abort=1:alloc_dealloc_mismatch=0";
}
__attribute__((used)) const char *__ubsan_default_options() {
	return "print_stacktrace=1:halt_on_error=1:exitcode=77";
}
}
