// mptsim kernel: seeded plan generation, pure plan execution, event log hash,
// allocation ledger + fault seam, abort seam, shrinking, replay.
#pragma once
#include <cstdint>
#include <cstdarg>
#include <cstdio>
#include <cstring>
#include <string>
#include <vector>
#include <map>
#include <unordered_set>
#include <utility>
#include <csetjmp>

namespace sim {

// ---------------------------------------------------------------- rng
static inline uint64_t splitmix64(uint64_t &x) {
	uint64_t z = (x += 0x9e3779b97f4a7c15ULL);
	z = (z ^ (z >> 30)) * 0xbf58476d1ce4e5b9ULL;
	z = (z ^ (z >> 27)) * 0x94d049bb133111ebULL;
	return z ^ (z >> 31);
}
struct Rng {
	uint64_t s[4];
	explicit Rng(uint64_t seed) { uint64_t x = seed; for (auto &v : s) v = splitmix64(x); }
	static inline uint64_t rotl(uint64_t x, int k) { return (x << k) | (x >> (64 - k)); }
	uint64_t next() {
		uint64_t r = rotl(s[1] * 5, 7) * 9, t = s[1] << 17;
		s[2] ^= s[0]; s[3] ^= s[1]; s[1] ^= s[2]; s[0] ^= s[3]; s[2] ^= t; s[3] = rotl(s[3], 45);
		return r;
	}
	uint64_t below(uint64_t n) { return n ? next() % n : 0; }
	int64_t range(int64_t lo, int64_t hi) { return hi <= lo ? lo : lo + (int64_t) below((uint64_t)(hi - lo + 1)); }
	bool chance(unsigned num, unsigned den) { return below(den) < num; }
	template <class T> const T &pick(const std::vector<T> &v) { return v[below(v.size())]; }
	template <class T, size_t N> const T &pick(const T (&v)[N]) { return v[below(N)]; }
};

// ---------------------------------------------------------------- plan
struct Op {
	int kind = 0;
	int64_t a = 0, b = 0, c = 0;
	int fault = 0;     // world-defined fault kind attached to this op (0 = none)
	int64_t fa = 0;    // fault argument
};
typedef std::vector<uint8_t> Bytes;
struct World;
struct Plan {
	std::string world;
	uint64_t seed = 0;
	std::string expect;   // expected violation signature ("" = none recorded)
	std::string hash;     // expected event hash (hex) or ""
	std::vector<std::pair<std::string, int64_t>> cfg;
	std::vector<Bytes> blobs;
	std::vector<Op> ops;
	int64_t get(const char *k, int64_t def = 0) const {
		for (auto &p : cfg) if (p.first == k) return p.second;
		return def;
	}
	void set(const char *k, int64_t v) {
		for (auto &p : cfg) if (p.first == k) { p.second = v; return; }
		cfg.emplace_back(k, v);
	}
	const Bytes &blob(size_t i) const { static const Bytes e; return i < blobs.size() ? blobs[i] : e; }
	std::string dump(const World &w) const;
	static bool parse(const std::string &text, const World &w, Plan &out, std::string &err);
};

// ---------------------------------------------------------------- log
struct Log {
	uint64_t h = 0xcbf29ce484222325ULL;
	bool verbose = false;
	bool stream = false;  // print each event immediately (replay of crashing plans)
	std::string text;
	uint64_t events = 0;
	void ev(const char *fmt, ...) __attribute__((format(printf, 2, 3)));
	void raw(const char *s, size_t n);
};
std::string hex(const uint8_t *p, size_t n, size_t max = 48);
inline std::string hex(const Bytes &b, size_t max = 48) { return hex(b.data(), b.size(), max); }
uint64_t fnv(const void *p, size_t n, uint64_t h = 0xcbf29ce484222325ULL);

// ---------------------------------------------------------------- stats
struct Stats {
	std::map<std::string, uint64_t> c;
	std::unordered_set<uint64_t> states;   // distinct (abstract state, op, outcome) triples
	std::unordered_set<uint64_t> schedules; // distinct op-kind sequences
	void hit(const std::string &k, uint64_t n = 1) { c[k] += n; }
	void state(uint64_t a, uint64_t b = 0, uint64_t d = 0) {
		uint64_t v[3] = {a, b, d};
		states.insert(fnv(v, sizeof v));
	}
};

// ---------------------------------------------------------------- result
struct Violation { std::string sig, detail; };
struct Result {
	std::string sig;      // "" = held
	std::string detail;
	bool discard = false; // run discarded (robustness observation outside the statement)
	uint64_t hash = 0;
	uint64_t events = 0;
};
[[noreturn]] void fail(const char *sig, const char *fmt, ...) __attribute__((format(printf, 2, 3)));
struct Discard { std::string why; };

// ---------------------------------------------------------------- world
struct World {
	virtual ~World() {}
	virtual const char *name() const = 0;
	virtual const char *const *opnames() const = 0;   // NULL-terminated
	virtual const char *const *faultnames() const = 0; // NULL-terminated, index 0 = "none"
	// every random choice of a run comes from rng; tier 0 quick, 1 thorough
	virtual void gen(Rng &rng, Plan &p, int tier) = 0;
	// pure function of plan and code
	virtual void exec(const Plan &p, Log &log, Stats &st) = 0;
	// optional deterministic enumeration: case index -> plan (no randomness)
	virtual uint64_t sweep_count(int tier) { return 0; }
	virtual void sweep_plan(uint64_t idx, int tier, Plan &p) {}
	// names of cfg keys the shrinker may lower toward 0
	virtual const char *const *shrinkable_cfg() const { static const char *const n[] = {0}; return n; }
	// true if blob i may be shortened / simplified by the shrinker
	virtual bool blob_shrinkable(size_t) const { return true; }
	// description of real/stub components etc. for evidence (JSON object text)
	virtual const char *components_json() const = 0;
	int opkind(const std::string &n) const;
	int faultkind(const std::string &n) const;
};
World *the_world(); // each sim_<world> binary links exactly one
extern int g_mode;     // --mode N: selects a sub-population of plans for worlds that serve two properties

// ---------------------------------------------------------------- seams
struct Seams {
	// allocation
	int in_sut = 0;           // >0: allocations belong to the SUT call in progress
	int reent = 0;
	uint64_t alloc_count = 0; // allocations inside current SUT scope
	uint64_t fail_at = 0;     // n-th allocation in scope fails (0 = never)
	uint64_t fail_from = 0;   // every allocation >= n fails (0 = never)
	uint64_t fired = 0;       // allocation failures delivered in this scope
	uint64_t total_allocs = 0;
	// abort
	jmp_buf jb;
	int jb_armed = 0;
	const char *abort_msg = 0;
	// callback caps
	uint64_t cb_calls = 0, cb_cap = 0;
	// pending violation raised inside a callback (cannot throw through C frames)
	bool pending = false;
	std::string pending_sig, pending_detail;
};
extern Seams g;
void ledger_reset();
extern bool c_impl;                 // this run reaches the C implementations of mpt_meta_buffer / mpt_meta_new / mpt_node_new instead of libmpt++'s overrides (plan cfg "cimpl")
extern bool registry_global;        // allocations made inside the type registry belong to the process, not to the run (set once by worlds that do not examine the registry)
size_t ledger_live();               // number of live SUT-allocated blocks
size_t ledger_live_bytes();
std::string ledger_describe(size_t max = 4); // sizes + serials, never addresses
uint64_t ledger_mark();             // serial watermark: blocks allocated later have serial > mark
size_t ledger_live_since(uint64_t mark);
bool ledger_is_live(const void *p);
bool ledger_covers(const void *p);   // p lies inside some live SUT-allocated block
void pend(const char *sig, const char *fmt, ...) __attribute__((format(printf, 2, 3)));
void check_pending();

// scope of one SUT call: allocations are recorded, the n-th may fail
struct Sut {
	explicit Sut(uint64_t fail_nth = 0, bool from = false) {
		g.alloc_count = 0; g.fired = 0;
		g.fail_at = from ? 0 : fail_nth; g.fail_from = from ? fail_nth : 0;
		++g.in_sut;
	}
	~Sut() { --g.in_sut; g.fail_at = 0; g.fail_from = 0; }
};
// scope of a harness callback invoked from inside a SUT call
struct Harness {
	int saved;
	Harness() : saved(g.in_sut) { g.in_sut = 0; }
	~Harness() { g.in_sut = saved; }
};
// a harness callback calling back into the library: same SUT call, same allocation counter and pending fault
struct Reenter {
	int saved;
	Reenter() : saved(g.in_sut) { g.in_sut = 1; }
	~Reenter() { g.in_sut = saved; }
};
#define SUT_GUARD_ABORT(stmt) do { \
	if (setjmp(sim::g.jb) == 0) { sim::g.jb_armed = 1; stmt; sim::g.jb_armed = 0; } \
	else { sim::g.jb_armed = 0; sim::g.in_sut = 0; sim::fail("abort", "library abort: %s", sim::g.abort_msg ? sim::g.abort_msg : "?"); } \
} while (0)

// exact-size heap block with plan-chosen misalignment (ASan red zones at both ends)
struct Block {
	uint8_t *raw = 0, *p = 0; size_t n = 0;
	Block() {}
	Block(size_t len, unsigned misalign = 0) { alloc(len, misalign); }
	void alloc(size_t len, unsigned misalign = 0);
	void release();
	// make only the first `visible` bytes addressable (ASan reports any access beyond)
	void expose(size_t visible);
	~Block() { release(); }
	Block(const Block &) = delete; Block &operator=(const Block &) = delete;
};

// ---------------------------------------------------------------- engine
Result run_plan(World &w, const Plan &p, bool verbose, Stats &st, std::string *text = 0);
int sim_main(int argc, char **argv);

} // namespace sim
