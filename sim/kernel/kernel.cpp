#include "kernel/sim.hpp"
#include "kernel/simio.hpp"
#include <unistd.h>
#include <fcntl.h>
#include <signal.h>
#include <sys/wait.h>
#include <sys/time.h>
#include <time.h>
#include <cstdlib>
#include <sstream>
#include <fstream>
#include <algorithm>
#include <functional>

namespace sim {

// ------------------------------------------------------------------ helpers
uint64_t fnv(const void *p, size_t n, uint64_t h) {
	const uint8_t *b = (const uint8_t *) p;
	for (size_t i = 0; i < n; ++i) { h ^= b[i]; h *= 0x100000001b3ULL; }
	return h;
}
std::string hex(const uint8_t *p, size_t n, size_t max) {
	static const char *d = "0123456789abcdef";
	std::string s;
	for (size_t i = 0; i < n && i < max; ++i) { s += d[p[i] >> 4]; s += d[p[i] & 15]; }
	if (n > max) { char b[32]; snprintf(b, sizeof b, "..(%zu)", n); s += b; }
	return s;
}
void Log::raw(const char *s, size_t n) {
	h = fnv(s, n, h); h = fnv("\n", 1, h); ++events;
	if (verbose) { text.append(s, n); text += '\n'; }
	if (stream) { fwrite(s, 1, n, stdout); fputc('\n', stdout); fflush(stdout); }
}
void Log::ev(const char *fmt, ...) {
	char buf[1024];
	va_list ap; va_start(ap, fmt);
	int n = vsnprintf(buf, sizeof buf, fmt, ap);
	va_end(ap);
	if (n < 0) n = 0;
	if ((size_t) n >= sizeof buf) n = sizeof buf - 1;
	raw(buf, (size_t) n);
}
void fail(const char *sig, const char *fmt, ...) {
	char buf[1024];
	va_list ap; va_start(ap, fmt); vsnprintf(buf, sizeof buf, fmt, ap); va_end(ap);
	throw Violation{sig, buf};
}
int World::opkind(const std::string &n) const {
	const char *const *o = opnames();
	for (int i = 0; o[i]; ++i) if (n == o[i]) return i;
	return -1;
}
int World::faultkind(const std::string &n) const {
	const char *const *o = faultnames();
	for (int i = 0; o[i]; ++i) if (n == o[i]) return i;
	return -1;
}

// ------------------------------------------------------------------ plan text
std::string Plan::dump(const World &w) const {
	std::ostringstream o;
	o << "mptsim-plan 1\nworld " << world << "\nseed " << seed << "\n";
	o << "expect " << (expect.empty() ? "-" : expect) << "\n";
	if (!hash.empty()) o << "hash " << hash << "\n";
	for (auto &c : cfg) o << "cfg " << c.first << " " << c.second << "\n";
	for (size_t i = 0; i < blobs.size(); ++i) o << "blob " << i << " " << (blobs[i].empty() ? "-" : sim::hex(blobs[i].data(), blobs[i].size(), (size_t) -1)) << "\n";
	const char *const *on = w.opnames(), *const *fn = w.faultnames();
	for (auto &op : ops) {
		o << "op " << on[op.kind] << " " << op.a << " " << op.b << " " << op.c;
		if (op.fault) o << " " << fn[op.fault] << " " << op.fa;
		o << "\n";
	}
	return o.str();
}
bool Plan::parse(const std::string &text, const World &w, Plan &p, std::string &err) {
	std::istringstream in(text);
	std::string line;
	p = Plan();
	while (std::getline(in, line)) {
		if (line.empty() || line[0] == '#') continue;
		std::istringstream ls(line);
		std::string k; ls >> k;
		if (k == "mptsim-plan") continue;
		else if (k == "world") ls >> p.world;
		else if (k == "seed") ls >> p.seed;
		else if (k == "expect") { std::string rest; std::getline(ls, rest); size_t s = rest.find_first_not_of(' '); p.expect = s == std::string::npos ? "" : rest.substr(s); if (p.expect == "-") p.expect.clear(); }
		else if (k == "hash") ls >> p.hash;
		else if (k == "cfg") { std::string n; int64_t v; ls >> n >> v; p.cfg.emplace_back(n, v); }
		else if (k == "blob") {
			size_t i; std::string hx; ls >> i >> hx;
			if (p.blobs.size() <= i) p.blobs.resize(i + 1);
			Bytes b;
			if (hx != "-") for (size_t j = 0; j + 1 < hx.size(); j += 2) b.push_back((uint8_t) strtoul(hx.substr(j, 2).c_str(), 0, 16));
			p.blobs[i] = b;
		}
		else if (k == "op") {
			std::string n; Op op; ls >> n >> op.a >> op.b >> op.c;
			op.kind = w.opkind(n);
			if (op.kind < 0) { err = "unknown op " + n; return false; }
			std::string f;
			if (ls >> f) { op.fault = w.faultkind(f); if (op.fault < 0) { err = "unknown fault " + f; return false; } ls >> op.fa; }
			p.ops.push_back(op);
		}
		else { err = "bad line: " + line; return false; }
	}
	if (p.world != w.name()) { err = "plan is for world '" + p.world + "', this binary is '" + w.name() + "'"; return false; }
	return true;
}

// ------------------------------------------------------------------ run one plan
static bool g_stream = false;
Result run_plan(World &w, const Plan &p, bool verbose, Stats &st, std::string *text) {
	Log log; log.verbose = verbose; log.stream = g_stream;
	Result r;
	g = Seams();
	ledger_reset();
	simio::reset();
	c_impl = p.get("cimpl") != 0;
	try {
		w.exec(p, log, st);
		check_pending();
	} catch (Violation &v) {
		r.sig = v.sig; r.detail = v.detail;
		log.ev("VIOLATION %s: %s", v.sig.c_str(), v.detail.c_str());
	} catch (Discard &d) {
		r.discard = true; r.detail = d.why;
		log.ev("DISCARD %s", d.why.c_str());
	}
	g.in_sut = 0; g.jb_armed = 0;
	r.hash = log.h; r.events = log.events;
	if (text) *text = log.text;
	uint64_t sh = 0xcbf29ce484222325ULL;
	for (auto &op : p.ops) { int k[2] = {op.kind, op.fault}; sh = fnv(k, sizeof k, sh); }
	st.schedules.insert(sh);
	return r;
}

static uint64_t run_seed(uint64_t base, uint64_t idx) {
	uint64_t x = base * 0x9e3779b97f4a7c15ULL + idx;
	return splitmix64(x);
}
int g_mode = 0;
static bool g_sweep = false;
static Plan make_plan(World &w, uint64_t base, uint64_t idx, int tier) {
	Plan p; p.world = w.name();
	if (g_sweep) { p.seed = idx; w.sweep_plan(idx, tier, p); return p; }
	p.seed = run_seed(base, idx);
	Rng rng(p.seed);
	w.gen(rng, p, tier);
	p.set("cimpl", (int64_t) (rng.below(3) == 0));      // a third of the seeded runs reach the C implementations libmpt++ overrides
	return p;
}

// ------------------------------------------------------------------ child execution (crash-proof)
static std::string classify_stderr(const std::string &e) {
	// AddressSanitizer
	size_t a = e.find("ERROR: AddressSanitizer: ");
	if (a != std::string::npos) {
		size_t s = a + 25, t = e.find_first_of(" \n", s);
		std::string kind = e.substr(s, t - s);
		std::string fn = "?";
		size_t pos = a;
		// first frame that lies in the repository under test
		while ((pos = e.find("\n    #", pos)) != std::string::npos) {
			size_t eol = e.find('\n', pos + 1);
			std::string ln = e.substr(pos + 1, eol - pos - 1);
			if (ln.find(VERIF_REPO "/") != std::string::npos) {
				size_t in = ln.find(" in ");
				if (in != std::string::npos) { size_t q = ln.find(' ', in + 4); fn = ln.substr(in + 4, q - in - 4); }
				break;
			}
			pos = eol == std::string::npos ? e.size() : eol;
			if (e.compare(pos, 2, "\n\n") == 0) break;
		}
		// an exhausted stack is met in whichever frame of the recursion happens to be on top: the function is no part of the violation class
		if (kind == "stack-overflow") return "asan:stack-overflow";
		return "asan:" + kind + ":" + fn;
	}
	size_t u = e.find("runtime error: ");
	if (u != std::string::npos) {
		size_t ls = e.rfind('\n', u); ls = ls == std::string::npos ? 0 : ls + 1;
		std::string loc = e.substr(ls, u - ls);
		size_t c = loc.find(':'); std::string file = loc.substr(0, c);
		size_t sl = file.rfind('/'); if (sl != std::string::npos) file = file.substr(sl + 1);
		std::string msg = e.substr(u + 15, e.find('\n', u) - u - 15);
		// keep first three words, drop numbers/addresses
		std::istringstream ms(msg); std::string wd, m3; int k = 0;
		while (k < 3 && ms >> wd) { if (isdigit((unsigned char) wd[0]) || wd[0] == '-') continue; m3 += (k ? "_" : "") + wd; ++k; }
		return "ubsan:" + file + ":" + m3;
	}
	return "";
}
// watchdog on consumed CPU time (a looping call burns it; a loaded machine does not), with a generous wall-clock backstop for a blocking call
static void arm_watchdog(unsigned cpu_s) {
	struct itimerval it; memset(&it, 0, sizeof it); it.it_value.tv_sec = cpu_s;
	setitimer(ITIMER_VIRTUAL, &it, 0);
	alarm(cpu_s * 30 + 60);
}
static void disarm_watchdog() {
	struct itimerval it; memset(&it, 0, sizeof it);
	setitimer(ITIMER_VIRTUAL, &it, 0);
	alarm(0);
}
static Result exec_child(World &w, const Plan &p, unsigned timeout_s, std::string *errtext = 0) {
	int rp[2], ep[2];
	if (pipe(rp) || pipe(ep)) { perror("pipe"); exit(2); }
	fflush(stdout); fflush(stderr);
	pid_t pid = fork();
	if (pid < 0) { perror("fork"); exit(2); }
	if (!pid) {
		close(rp[0]); close(ep[0]);
		dup2(ep[1], 2);
		arm_watchdog(timeout_s);
		Stats st;
		Result r = run_plan(w, p, false, st);
		char hb[32]; snprintf(hb, sizeof hb, "%016llx", (unsigned long long) r.hash);
		std::string out = (r.discard ? std::string("D") : std::string("R")) + "\n" + hb + "\n" + r.sig + "\n" + r.detail + "\n";
		(void) !write(rp[1], out.data(), out.size());
		_exit(0);
	}
	close(rp[1]); close(ep[1]);
	std::string out, err; char buf[4096]; ssize_t n;
	// read both pipes until EOF (stderr first limited)
	fd_set fs; int open_r = 1, open_e = 1;
	while (open_r || open_e) {
		FD_ZERO(&fs); int mx = 0;
		if (open_r) { FD_SET(rp[0], &fs); mx = std::max(mx, rp[0]); }
		if (open_e) { FD_SET(ep[0], &fs); mx = std::max(mx, ep[0]); }
		if (select(mx + 1, &fs, 0, 0, 0) < 0) break;
		if (open_r && FD_ISSET(rp[0], &fs)) { n = read(rp[0], buf, sizeof buf); if (n <= 0) open_r = 0; else out.append(buf, n); }
		if (open_e && FD_ISSET(ep[0], &fs)) { n = read(ep[0], buf, sizeof buf); if (n <= 0) open_e = 0; else if (err.size() < 200000) err.append(buf, n); }
	}
	close(rp[0]); close(ep[0]);
	int status = 0; waitpid(pid, &status, 0);
	Result r;
	if (errtext) *errtext = err;
	if (WIFEXITED(status) && WEXITSTATUS(status) == 0 && !out.empty()) {
		std::istringstream in(out); std::string kind, hb;
		std::getline(in, kind); std::getline(in, hb); std::getline(in, r.sig); std::getline(in, r.detail);
		r.discard = kind == "D"; r.hash = strtoull(hb.c_str(), 0, 16);
		return r;
	}
	if (WIFSIGNALED(status) && (WTERMSIG(status) == SIGALRM || WTERMSIG(status) == SIGVTALRM)) { r.sig = "hang"; r.detail = "call did not return within watchdog"; return r; }
	std::string c = classify_stderr(err);
	if (c.empty()) {
		char b[64];
		if (WIFSIGNALED(status)) snprintf(b, sizeof b, "crash:signal%d", WTERMSIG(status));
		else snprintf(b, sizeof b, "crash:exit%d", WEXITSTATUS(status));
		c = b;
	}
	r.sig = c;
	size_t a = err.find("ERROR: "); if (a == std::string::npos) a = err.find("runtime error");
	r.detail = a == std::string::npos ? err.substr(0, 300) : err.substr(a, err.find('\n', a) - a);
	return r;
}

// ------------------------------------------------------------------ shrinking
struct Shrinker {
	World &w; std::string sig; unsigned execs = 0, budget;
	Shrinker(World &w_, const std::string &s, unsigned b) : w(w_), sig(s), budget(b) {}
	bool fails(const Plan &p) {
		if (execs >= budget) return false;
		++execs;
		Result r = exec_child(w, p, 5);
		return r.sig == sig;
	}
	bool ddmin_ops(Plan &p) {
		bool any = false;
		size_t n = p.ops.size();
		for (size_t chunk = n ? (n + 1) / 2 : 0; chunk >= 1; chunk = chunk == 1 ? 0 : (chunk + 1) / 2) {
			for (size_t i = 0; i < p.ops.size();) {
				Plan q = p;
				size_t e = std::min(i + chunk, q.ops.size());
				q.ops.erase(q.ops.begin() + i, q.ops.begin() + e);
				if (fails(q)) { p = q; any = true; } else i += chunk;
				if (execs >= budget) return any;
			}
			if (!chunk) break;
		}
		return any;
	}
	bool shrink_int(Plan &p, std::function<int64_t &(Plan &)> ref) {
		bool any = false;
		int64_t cur = ref(p);
		if (cur == 0) return false;
		int64_t cands[] = {0, 1, cur / 2, cur - 1};
		for (int64_t c : cands) {
			if (c == cur || (cur > 0 && (c < 0 || c >= cur)) || (cur < 0)) continue;
			Plan q = p; ref(q) = c;
			if (fails(q)) { p = q; any = true; cur = c; if (c == 0) break; }
		}
		return any;
	}
	bool shrink_ops_args(Plan &p) {
		bool any = false;
		for (size_t i = 0; i < p.ops.size() && execs < budget; ++i) {
			if (p.ops[i].fault) { Plan q = p; q.ops[i].fault = 0; q.ops[i].fa = 0; if (fails(q)) { p = q; any = true; } }
			any |= shrink_int(p, [i](Plan &x) -> int64_t & { return x.ops[i].a; });
			any |= shrink_int(p, [i](Plan &x) -> int64_t & { return x.ops[i].b; });
			any |= shrink_int(p, [i](Plan &x) -> int64_t & { return x.ops[i].c; });
			if (p.ops[i].fault) any |= shrink_int(p, [i](Plan &x) -> int64_t & { return x.ops[i].fa; });
		}
		return any;
	}
	bool shrink_blobs(Plan &p) {
		bool any = false;
		for (size_t b = 0; b < p.blobs.size() && execs < budget; ++b) {
			if (!w.blob_shrinkable(b)) continue;
			// drop trailing / leading halves
			for (int side = 0; side < 2; ++side) {
				size_t cut = p.blobs[b].size() / 2;
				while (cut >= 1 && execs < budget) {
					if (p.blobs[b].size() < cut) { cut /= 2; continue; }
					Plan q = p;
					if (side == 0) q.blobs[b].resize(q.blobs[b].size() - cut);
					else q.blobs[b].erase(q.blobs[b].begin(), q.blobs[b].begin() + cut);
					if (fails(q)) { p = q; any = true; } else cut /= 2;
				}
			}
			// simplify bytes toward 0x01 in chunks
			size_t n = p.blobs[b].size();
			for (size_t chunk = n; chunk >= 1 && execs < budget; chunk /= 2) {
				for (size_t i = 0; i < n && execs < budget; i += chunk) {
					Plan q = p; bool ch = false;
					for (size_t j = i; j < std::min(n, i + chunk); ++j) if (q.blobs[b][j] > 1) { q.blobs[b][j] = 1; ch = true; }
					if (ch && fails(q)) { p = q; any = true; }
				}
				if (chunk == 1) break;
			}
		}
		return any;
	}
	bool shrink_cfg(Plan &p) {
		bool any = false;
		for (const char *const *k = w.shrinkable_cfg(); *k; ++k) {
			std::string key = *k;
			for (size_t i = 0; i < p.cfg.size(); ++i) if (p.cfg[i].first == key)
				any |= shrink_int(p, [i](Plan &x) -> int64_t & { return x.cfg[i].second; });
		}
		// prefer the implementation as linked (cimpl 0) when the violation does not depend on it
		for (size_t i = 0; i < p.cfg.size(); ++i) if (p.cfg[i].first == "cimpl" && p.cfg[i].second) { Plan q = p; q.cfg[i].second = 0; if (fails(q)) { p = q; any = true; } }
		return any;
	}
	void run(Plan &p) {
		for (int round = 0; round < 4 && execs < budget; ++round) {
			bool any = ddmin_ops(p);
			any |= shrink_ops_args(p);
			any |= shrink_blobs(p);
			any |= shrink_cfg(p);
			if (!any) break;
		}
	}
};

// ------------------------------------------------------------------ json helpers
static std::string jstr(const std::string &s) {
	std::string o = "\"";
	for (unsigned char c : s) {
		if (c == '"' || c == '\\') { o += '\\'; o += c; }
		else if (c == '\n') o += "\\n";
		else if (c < 0x20) { char b[8]; snprintf(b, sizeof b, "\\u%04x", c); o += b; }
		else o += c;
	}
	return o + "\"";
}
static double g_slowest_cpu = 0; static uint64_t g_slowest_idx = 0;
static double cpu_s() { struct timespec ts; clock_gettime(CLOCK_PROCESS_CPUTIME_ID, &ts); return (double) ts.tv_sec + 1e-9 * (double) ts.tv_nsec; }
static void print_stats(const Stats &st, uint64_t runs, uint64_t discards, uint64_t events, double secs, const char *states_file) {
	std::string s = "{";
	s += "\"runs\":" + std::to_string(runs) + ",\"discarded\":" + std::to_string(discards) + ",\"events\":" + std::to_string(events);
	char b[96]; snprintf(b, sizeof b, ",\"secs\":%.3f,\"slowest_run_cpu_s\":%.3f,\"slowest_run_index\":%llu", secs, g_slowest_cpu, (unsigned long long) g_slowest_idx); s += b;
	s += ",\"states\":" + std::to_string(st.states.size()) + ",\"schedules\":" + std::to_string(st.schedules.size());
	s += ",\"counters\":{";
	bool first = true;
	for (auto &c : st.c) { s += (first ? "" : ",") + jstr(c.first) + ":" + std::to_string(c.second); first = false; }
	s += "}}";
	printf("STATS %s\n", s.c_str());
	if (states_file) {
		FILE *f = fopen(states_file, "wb");
		if (f) {
			size_t n = 0;
			for (uint64_t v : st.states) { if (++n > 4000000) break; fwrite(&v, 8, 1, f); }
			uint64_t sep = 0; fwrite(&sep, 8, 1, f);
			n = 0;
			for (uint64_t v : st.schedules) { if (++n > 4000000) break; fwrite(&v, 8, 1, f); }
			fclose(f);
		}
	}
}
static double now_s() { struct timespec t; clock_gettime(CLOCK_MONOTONIC, &t); return t.tv_sec + t.tv_nsec * 1e-9; }

static bool read_file(const char *path, std::string &out) {
	std::ifstream f(path, std::ios::binary); if (!f) return false;
	std::ostringstream s; s << f.rdbuf(); out = s.str(); return true;
}
static void on_alarm(int) {
	static const char m[] = "\nHANG watchdog expired\n";
	(void) !write(1, m, sizeof m - 1);
	_exit(78);
}

// ------------------------------------------------------------------ main
static const char *arg(int argc, char **argv, const char *name, const char *def = 0) {
	for (int i = 2; i + 1 < argc; ++i) if (!strcmp(argv[i], name)) return argv[i + 1];
	return def;
}
static bool flag(int argc, char **argv, const char *name) {
	for (int i = 2; i < argc; ++i) if (!strcmp(argv[i], name)) return true;
	return false;
}

static int finish_violation(World &w, Plan &p, const Result &first, const char *out, unsigned budget) {
	// gate 1: same plan twice gives same signature and hash
	Result r1 = exec_child(w, p, 20), r2 = exec_child(w, p, 20);
	if (r1.sig != r2.sig || r1.hash != r2.hash || r1.sig.empty()) {
		printf("NONDET first=%s again=%s/%s hash %016llx/%016llx\n", first.sig.c_str(), r1.sig.c_str(), r2.sig.c_str(),
		       (unsigned long long) r1.hash, (unsigned long long) r2.hash);
		return 2;
	}
	size_t ops0 = p.ops.size();
	Shrinker sh(w, r1.sig, budget);
	sh.run(p);
	Result rf = exec_child(w, p, 20);
	if (rf.sig != r1.sig) { printf("NONDET shrunk plan lost signature\n"); return 2; }
	p.expect = rf.sig;
	char hb[32]; snprintf(hb, sizeof hb, "%016llx", (unsigned long long) rf.hash); p.hash = hb;
	std::string text = p.dump(w);
	text += "# detail: " + rf.detail + "\n";
	FILE *f = fopen(out, "w");
	if (!f) { perror(out); return 2; }
	fputs(text.c_str(), f); fclose(f);
	printf("SHRUNK sig=%s ops=%zu->%zu execs=%u file=%s\nDETAIL %s\n", rf.sig.c_str(), ops0, p.ops.size(), sh.execs, out, rf.detail.c_str());
	return 1;
}

int sim_main(int argc, char **argv) {
	alarm(120); // world construction (process-global warm-up) happens before any per-run watchdog
	World &w = *the_world();
	alarm(0);
	if (argc < 2) { fprintf(stderr, "usage: %s run|gen|shrink|replay|sweep ...\n", argv[0]); return 2; }
	std::string mode = argv[1];
	setvbuf(stdout, 0, _IOLBF, 0);
	uint64_t base = strtoull(arg(argc, argv, "--base", "1"), 0, 0);
	int tier = !strcmp(arg(argc, argv, "--tier", "quick"), "thorough") ? 1 : 0;
	g_sweep = flag(argc, argv, "--sweep");
	g_mode = atoi(arg(argc, argv, "--mode", "0"));

	if (mode == "run") {
		uint64_t from = strtoull(arg(argc, argv, "--from", "0"), 0, 0);
		uint64_t count = strtoull(arg(argc, argv, "--count", "100"), 0, 0);
		uint64_t stride = strtoull(arg(argc, argv, "--stride", "1"), 0, 0);
		double budget = atof(arg(argc, argv, "--budget-s", "0"));
		bool hashes = flag(argc, argv, "--hashes"), flush_each = flag(argc, argv, "--flush");
		signal(SIGALRM, on_alarm); signal(SIGVTALRM, on_alarm);
		Stats st; uint64_t runs = 0, disc = 0, viol = 0, events = 0;
		double t0 = now_s();
		uint64_t i = from;
		for (uint64_t k = 0; k < count; ++k, i += stride) {
			if (budget > 0 && (k & 7) == 0 && now_s() - t0 > budget) break;
			printf("S %llu\n", (unsigned long long) i);
			if (flush_each) fflush(stdout);      // keeps the seed markers in order with what a tool like valgrind writes to stderr
			arm_watchdog(20);
			double c0 = cpu_s();
			Plan p = make_plan(w, base, i, tier);
			Result r = run_plan(w, p, false, st);
			disarm_watchdog();
			{ double c = cpu_s() - c0; if (c > g_slowest_cpu) { g_slowest_cpu = c; g_slowest_idx = i; } }      // reported only, never part of a decision
			++runs; events += r.events;
			if (r.discard) { ++disc; st.hit("discard:" + r.detail); }
			if (!r.sig.empty()) { printf("V %llu %s\n", (unsigned long long) i, r.sig.c_str()); ++viol; }
			else if (hashes) printf("H %llu %016llx\n", (unsigned long long) i, (unsigned long long) r.hash);
			// a violated run may leave process-global library state behind (a half-made table, a dangling global): this worker stops,
			// so that nothing a later run of the same process does can be taken for a finding of its own
			if (viol >= 1) { ++k; i += stride; break; }
		}
		printf("END %llu\n", (unsigned long long) i);
		print_stats(st, runs, disc, events, now_s() - t0, arg(argc, argv, "--states"));
		return 0;
	}
	if (mode == "gen") {
		uint64_t idx = strtoull(arg(argc, argv, "--index", "0"), 0, 0);
		Plan p = make_plan(w, base, idx, tier);
		fputs(p.dump(w).c_str(), stdout);
		return 0;
	}
	if (mode == "shrink") {
		const char *out = arg(argc, argv, "--out", "/dev/stdout");
		unsigned budget = (unsigned) atoi(arg(argc, argv, "--execs", "1500"));
		Plan p;
		if (const char *pf = arg(argc, argv, "--plan")) {
			std::string t, err; if (!read_file(pf, t) || !Plan::parse(t, w, p, err)) { fprintf(stderr, "cannot read plan: %s\n", err.c_str()); return 2; }
		} else {
			uint64_t idx = strtoull(arg(argc, argv, "--index", "0"), 0, 0);
			p = make_plan(w, base, idx, tier);
		}
		Result r = exec_child(w, p, 30);
		if (r.sig.empty()) { printf("NOFAIL plan does not fail\n"); return 0; }
		return finish_violation(w, p, r, out, budget);
	}
	if (mode == "replay") {
		if (argc < 3) return 2;
		bool verbose = flag(argc, argv, "-v");
		std::string t, err; Plan p;
		if (!read_file(argv[2], t) || !Plan::parse(t, w, p, err)) { fprintf(stderr, "cannot read plan: %s\n", err.c_str()); return 2; }
		std::string etext;
		Result r = exec_child(w, p, 60, &etext);
		if (verbose && !r.sig.empty() && (r.sig.compare(0, 4, "asan") == 0 || r.sig.compare(0, 5, "ubsan") == 0 || r.sig.compare(0, 5, "crash") == 0 || r.sig == "hang")) {
			// crashing plan: run it once more in a child that prints every event as it happens
			fflush(stdout);
			pid_t pid = fork();
			if (!pid) { g_stream = true; arm_watchdog(20); Stats st; int fd = open("/dev/null", O_WRONLY); dup2(fd, 2); run_plan(w, p, false, st); _exit(0); }
			int status; waitpid(pid, &status, 0);
		}
		if (verbose) {
			// re-run in-process for the full event text if it does not crash
			if (r.sig.empty() || r.sig.find(':') == std::string::npos || r.sig.compare(0, 4, "asan") != 0) {
				if (r.sig != "hang" && r.sig.compare(0, 5, "ubsan") != 0 && r.sig.compare(0, 5, "crash") != 0) {
					Stats st; std::string text; run_plan(w, p, true, st, &text); fputs(text.c_str(), stdout);
				}
			}
			if (!etext.empty()) fputs(etext.c_str(), stdout);
		}
		printf("REPLAY sig=%s hash=%016llx expect=%s%s\n", r.sig.empty() ? "-" : r.sig.c_str(), (unsigned long long) r.hash,
		       p.expect.empty() ? "-" : p.expect.c_str(), r.discard ? " discarded" : "");
		if (!r.sig.empty()) { printf("DETAIL %s\n", r.detail.c_str()); return 1; }
		return 0;
	}
	if (mode == "components") { printf("%s\n", w.components_json()); return 0; }
	if (mode == "exec1") {
		// one plan, in this process, no fork: the form used under valgrind
		if (argc < 3) { fprintf(stderr, "exec1 <plan>\n"); return 2; }
		std::string text, err; Plan p; if (!read_file(argv[2], text) || !Plan::parse(text, w, p, err)) { fprintf(stderr, "cannot read plan %s: %s\n", argv[2], err.c_str()); return 2; }
		Stats st; Result r = run_plan(w, p, false, st);
		printf("EXEC1 sig=%s hash=%016llx\n", r.sig.empty() ? "-" : r.sig.c_str(), (unsigned long long) r.hash);
		return r.sig.empty() ? 0 : 1;
	}
	if (mode == "sweepcount") { printf("%llu\n", (unsigned long long) w.sweep_count(tier)); return 0; }
	fprintf(stderr, "unknown mode %s\n", mode.c_str());
	return 2;
}
} // namespace sim

int main(int argc, char **argv) { return sim::sim_main(argc, argv); }
