// simulated descriptors (>= 1000) behind readv/writev/poll/fcntl/close/dup/getsockopt
#pragma once
#include <cstdint>
#include <deque>
#include <vector>
#include <cstddef>

namespace simio {
enum Fault { F_NONE = 0, F_SHORT, F_EAGAIN, F_EINTR, F_EPIPE, F_EIO };
struct Chan {                 // one direction of a byte stream
	std::deque<uint8_t> wire;   // written, not yet delivered (in flight)
	std::deque<uint8_t> avail;  // delivered, readable
	size_t cap = 65536;         // max bytes in wire+avail a writer may have outstanding
	bool wclosed = false;       // writer end closed (EOF once drained)
	bool rclosed = false;       // reader end closed (EPIPE for writer)
	uint64_t written = 0, read = 0;
};
struct DChan {                // one direction of a datagram socket pair
	std::deque<std::vector<uint8_t>> wire;   // sent, in flight (the plan delivers, drops, duplicates, reorders)
	std::deque<std::vector<uint8_t>> avail;  // delivered, receivable
	uint64_t sent = 0, received = 0, truncated = 0;
};
struct Fd {
	bool open = false;
	bool dgram = false;         // rchan/wchan index datagram channels
	int rchan = -1, wchan = -1; // channel indices
	int flags = 0;              // O_* for fcntl(F_GETFL)
	int rfault = 0; int64_t rfa = 0; // one-shot fault for the next readv
	int wfault = 0; int64_t wfa = 0; // one-shot fault for the next writev
	int closes = 0;
};
struct State {
	std::vector<Chan> chans;
	std::vector<DChan> dchans;
	std::vector<Fd> fds;        // fd number = 1000 + index
	int64_t now_ms = 0;         // simulated clock, advanced by poll timeouts only
	uint64_t polls = 0, poll_block_forever = 0;
	uint64_t f_short_r = 0, f_short_w = 0, f_eagain_r = 0, f_eagain_w = 0, f_eintr = 0, f_epipe = 0, f_eof = 0;
	uint64_t readv_calls = 0, writev_calls = 0;
};
extern State S;
void reset();
int new_chan(size_t cap);
int new_fd(int rchan, int wchan, int flags); // returns fd number
Fd *get(int fd);
Chan *chan(int idx);
// deliver up to n in-flight bytes of channel to its reader; returns number delivered
size_t deliver(int chan, size_t n);
// datagram sockets
int new_dchan();
int new_dgram_fd(int rchan, int wchan);
DChan *dchan(int idx);
bool ddeliver(int chan, size_t idx);   // move datagram idx of the in-flight list to the receiver
bool ddrop(int chan, size_t idx);      // lose it
bool ddup(int chan, size_t idx);       // duplicate it in flight
}
