/* see cimpl_meta_buffer.c */
#define mpt_node_new verif_c_node_new
#include "node/node_new.c"
