/* see cimpl_meta_buffer.c */
#define mpt_meta_new verif_c_meta_new
#include "meta/meta_new.c"
