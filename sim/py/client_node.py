#!/usr/bin/env python3
"""Client node of the `enc` world: runs the bundled Python client's encoders
(mpt.py, loaded from the path given as argv[1]) on messages received on stdin.
Protocol, one request per line:  "<cobs|command> <hex|->"  ->  "ok <hex>" | "err <text>"
"""
import sys, importlib.util, binascii

spec = importlib.util.spec_from_file_location("mpt_client", sys.argv[1])
mod = importlib.util.module_from_spec(spec)
spec.loader.exec_module(mod)

for line in sys.stdin:
    parts = line.split()
    if len(parts) != 2:
        print("err bad request", flush=True)
        continue
    kind, hx = parts
    msg = bytearray() if hx == "-" else bytearray(binascii.unhexlify(hx))
    try:
        if kind == "cobs":
            frame = mod.encode_cobs(msg)
        else:
            frame = mod.encode_command(msg)
        print("ok " + binascii.hexlify(bytes(frame)).decode(), flush=True)
    except Exception as e:  # refusal by the client
        print("err " + type(e).__name__, flush=True)
