// world `pipe` (C02): a sender node writes a sequence of messages through a real
// framed output queue, the simulated wire carries the bytes in plan-chosen
// segments, a receiver node reads them through a real framed input queue.
// Tasks (writer, flusher, network, reader) are stepped by the plan's ops.
//   layer Q: mpt_queue_push / crop / qpush / mpt_queue_recv on ring buffers with
//            plan-chosen capacity and start offset
//   layer S: two real mpt_stream objects over a simulated descriptor pair
#include "worlds/common.hpp"
#include <type_traits>
#include "kernel/simio.hpp"
#include <fcntl.h>
#include <poll.h>
#include <unistd.h>

using namespace sim;
using namespace mpt;

enum { OP_WPUSH, OP_WTERM, OP_WFLUSH, OP_NET, OP_RRECV, OP_RPEEK, OP_WCRASH, OP_RPOLL, OP_WABORT };
enum { FL_NONE, FL_ALLOC, FL_SHORT, FL_EAGAIN, FL_EINTR };
static const char *const OPS[] = {"W_PUSH", "W_TERM", "W_FLUSH", "NET_DELIVER", "R_RECV", "R_PEEK", "W_CRASH", "R_POLL", "W_ABORT", 0};
static const char *const FAULTS[] = {"none", "allocfail", "short", "eagain", "eintr", 0};

template <typename T> static bool try_copy_obj(T &from) {
	if constexpr (std::is_copy_constructible<T>::value) { Sut s; T c(from); (void) c; return true; }
	else return false;
}
struct PipeWorld : World {
	const char *name() const override { return "pipe"; }
	const char *const *opnames() const override { return OPS; }
	const char *const *faultnames() const override { return FAULTS; }
	const char *const *shrinkable_cfg() const override { static const char *const k[] = {"eoff", "doff", "ecap", "dcap", "egrow", "layer", 0}; return k; }
	const char *components_json() const override {
		return "{\"real\":[\"mpt_queue_push (encode over ring buffer incl. wrap and out-of-band scratch)\",\"mpt_queue_get/crop (flush protocol of mpt_stream_flush / encode_queue::trim)\","
		       "\"mpt_qpush\",\"mpt_queue_prepare/resize/align\",\"mpt_queue_recv\",\"mpt_queue_shift\",\"mpt_queue_peek\",\"mpt_message_get\",\"mpt_message_read\","
		       "\"the four COBS encoders and decoders\",\"layer S: mpt_stream_push/flush/poll/dispatch, _mpt_stream_setfile, mpt_stream_setmode, mpt_queue_load (readv), writev\"],"
		       "\"stub\":[\"wire (byte FIFO; simulated descriptors 1000+ behind readv/writev/poll/fcntl/close)\",\"clock (poll timeouts advance simulated ms)\",\"allocator (ledger + n-th allocation fails)\"]}";
	}

	// ------------------------------------------------------------ generation
	void gen(Rng &r, Plan &p, int tier) override {
		int framing = (int) r.below(9); if (framing > 4) framing -= 5;      // the four COBS framings, and (less often) zero-terminated command text through the same queues
		p.set("framing", framing);
		p.set("layer", 0);
		static const int caps[] = {8, 16, 24, 40, 64, 100, 256, 257, 300, 512, 700};
		p.set("ecap", r.pick(caps));
		p.set("dcap", r.pick(caps));
		p.set("eoff", r.range(0, 700));
		p.set("doff", r.range(0, 700));
		p.set("egrow", r.chance(1, 2));
		int nmsg = (int) r.range(1, tier ? 8 : 5);
		int lenclass = (int) r.below(4);
		bool zerorich = r.chance(1, 12);      // long messages made of {byte, 0, 0} groups: a ZPE frame of them needs up to half its length as decoder scratch
		for (int i = 0; i < nmsg; ++i) {
			size_t mx = lenclass == 0 ? 8 : lenclass == 1 ? 40 : lenclass == 2 ? 300 : 600;
			if (zerorich && (i == 0 || r.chance(1, 2))) { Bytes m; size_t groups = (size_t) r.range(40, 1500); uint8_t b = (uint8_t) r.range(1, 255); for (size_t k = 0; k < groups; ++k) { m.push_back(b); m.push_back(0); m.push_back(0); if (r.chance(1, 40)) m.push_back((uint8_t) r.range(1, 255)); } p.blobs.push_back(m); continue; }
			p.blobs.push_back(gen_message(r, mx, true));
		}
		int nops = (int) r.range(0, tier ? 200 : 90);
		int style = (int) r.below(6); // delivery style
		int starve = (int) r.below(4); // 0 none, 1 reader slow, 2 writer slow, 3 flusher slow
		bool allocf = r.chance(1, 4);
		for (int i = 0; i < nops; ++i) {
			Op op;
			unsigned k = (unsigned) r.below(20);
			if (starve == 1 && k >= 14 && !r.chance(1, 20)) k = (unsigned) r.below(14);
			if (starve == 2 && k < 7 && !r.chance(1, 20)) k = 7 + (unsigned) r.below(13);
			if (k < 5) { op.kind = OP_WPUSH; op.a = style == 0 ? 1 : edgy(r, 300); if (op.a < 1) op.a = 1; if (allocf && r.chance(1, 5)) { op.fault = FL_ALLOC; op.fa = 1; } }
			else if (k < 7) op.kind = OP_WTERM;
			else if (k < 10) { op.kind = OP_WFLUSH; op.a = (starve == 3) ? r.range(1, 2) : (r.chance(1, 2) ? 1000000 : edgy(r, 300)); if (op.a < 1) op.a = 1; }
			else if (k < 14) {
				op.kind = OP_NET;
				switch (style) {
				case 0: case 1: op.a = 1; break;                    // byte by byte
				case 2: op.a = 1000000; break;                      // everything in flight
				case 3: op.a = -1; break;                           // up to and including the next delimiter
				case 4: op.a = -2; break;                           // exactly one code byte beyond the last delimiter delivered
				default: op.a = edgy(r, 300); if (op.a < 1) op.a = 1; break;
				}
				if (r.chance(1, 6)) op.a = r.range(1, 3);
				if (allocf && r.chance(1, 5)) { op.fault = FL_ALLOC; op.fa = 1; }
			}
			else if (k < 19) { op.kind = OP_RRECV; if (allocf && r.chance(1, 5)) { op.fault = FL_ALLOC; op.fa = 1; } }
			else { op.kind = OP_RPEEK; op.a = r.range(0, 64); }
			p.ops.push_back(op);
		}
		p.set("cxxq", r.chance(1, 4));   // layer Q: writer side through the C++ encode_queue methods (push, trim)
		if (r.chance(1, 3)) {
			// layer S: same schedule, streams on simulated descriptors; reader loads by polling
			p.set("layer", 1);
			static const int ccaps[] = {1, 2, 3, 7, 16, 64, 255, 4096, 65536};
			p.set("chancap", r.pick(ccaps));
			p.set("strict", r.chance(1, 2));      // reader follows the event-loop protocol (dispatch on poll, repeat on Retry) instead of calling dispatch unasked
			bool iof = r.chance(1, 2);
			for (Op &op : p.ops) {
				if (op.kind == OP_RPEEK) { op.kind = OP_RPOLL; op.a = r.chance(1, 2) ? 0 : r.range(1, 5000); }
				else if (op.kind == OP_RRECV && r.chance(1, 2)) { op.kind = OP_RPOLL; op.a = r.chance(1, 2) ? 0 : r.range(1, 5000); }
				if (iof && op.kind == OP_WFLUSH && r.chance(1, 3)) { op.fault = (int) r.range(FL_SHORT, FL_EINTR); op.fa = r.range(1, 9); }
				if (iof && op.kind == OP_RPOLL && r.chance(1, 3)) { op.fault = (int) r.range(FL_SHORT, FL_EINTR); op.fa = r.range(1, 9); }
			}
		}
		if (r.chance(1, 10)) { p.set("layer", 2); static const int mcaps[] = {8, 40, 130, 300, 700, 4096}; p.set("memcap", r.pick(mcaps)); }   // layer M: streams over a fixed memory area
		if (r.chance(1, 4) && !p.ops.empty()) {
			// the writer gives up a message it has begun (push(1, NULL)): nothing of it may reach the reader
			for (int n = (int) r.range(1, 3); n > 0; --n) { Op c; c.kind = OP_WABORT; p.ops.insert(p.ops.begin() + r.below(p.ops.size()), c); }
		}
		if (r.chance(1, 12) && !p.ops.empty()) {
			Op c; c.kind = OP_WCRASH; c.a = r.range(0, 40);
			p.ops.insert(p.ops.begin() + r.below(p.ops.size()), c);
		}
	}

	// ------------------------------------------------------------ enumeration: every single cut point
	// (two-segment delivery with a receive in between) and pure byte-by-byte delivery,
	// for short message sequences from a boundary corpus x 4 framings x 6 (capacity, offset) pairs
	static Bytes corpus_msg(unsigned id) {
		Bytes m;
		switch (id) {
		case 0: break;
		case 1: m = {0}; break;
		case 2: m = {0x41}; break;
		case 3: m = {0, 0}; break;
		case 4: m = {0x41, 0, 0}; break;
		case 5: m = {0x41, 0, 0, 0x42, 0, 0, 0x43}; break;
		case 6: for (int i = 0; i < 30; ++i) m.push_back(0x61); m.push_back(0); m.push_back(0); break;
		case 7: for (int i = 0; i < 31; ++i) m.push_back(0x61); m.push_back(0); m.push_back(0); break;
		case 8: for (int i = 0; i < 222; ++i) m.push_back((uint8_t) (1 + i % 250)); break;
		case 9: for (int i = 0; i < 223; ++i) m.push_back((uint8_t) (1 + i % 250)); break;
		case 10: for (int i = 0; i < 254; ++i) m.push_back((uint8_t) (1 + i % 250)); break;
		case 11: for (int i = 0; i < 255; ++i) m.push_back((uint8_t) (1 + i % 250)); break;
		case 12: for (int i = 0; i < 20; ++i) { m.push_back(0x30 + i); m.push_back(0); m.push_back(0); } break;
		case 13: m = {0x05, 0x04, 0x03, 0xfe}; break;
		case 14: m = {0xe1, 0xe0, 0xdf}; break;
		default: for (int i = 0; i < 12; ++i) m.push_back(0); break;
		}
		return m;
	}
	static const unsigned NSEQ = 24;
	static void corpus_seq(unsigned sid, std::vector<Bytes> &out) {
		static const int seqs[NSEQ][3] = {
			{2, -1, -1}, {0, 2, -1}, {2, 0, 2}, {4, 4, -1}, {5, 2, -1}, {6, 7, -1}, {8, 2, -1}, {10, 2, -1},
			{1, 3, 0}, {9, 4, -1}, {11, 5, -1}, {12, 2, -1}, {12, 12, -1}, {13, 14, -1}, {15, 2, -1}, {3, 3, 3},
			{7, 12, 2}, {8, 8, -1}, {10, 10, -1}, {14, 4, 13}, {0, 0, 0}, {2, 15, 5}, {6, 6, 6}, {5, 13, 1}};
		for (int k = 0; k < 3; ++k) if (seqs[sid][k] >= 0) out.push_back(corpus_msg((unsigned) seqs[sid][k]));
	}
	static size_t seq_cuts(unsigned sid) {
		std::vector<Bytes> ms; corpus_seq(sid, ms);
		size_t n = 2; for (auto &m : ms) n += m.size() + m.size() / 200 + 3;
		return n; // cut values 0..n-2 = two-segment delivery at that byte, n-1 = byte by byte
	}
	uint64_t sweep_count(int tier) override {
		uint64_t total = 0;
		unsigned nseq = NSEQ; (void) tier;
		for (unsigned s = 0; s < nseq; ++s) total += (uint64_t) seq_cuts(s) * 4 * 6;
		return total;
	}
	void sweep_plan(uint64_t idx, int tier, Plan &p) override {
		unsigned sid = 0;
		while (true) { uint64_t n = (uint64_t) seq_cuts(sid) * 24; if (idx < n) break; idx -= n; ++sid; }
		size_t ncut = seq_cuts(sid);
		size_t cut = idx % ncut; idx /= ncut;
		unsigned framing = idx % 4; idx /= 4;
		static const int capoff[6][2] = {{700, 0}, {700, 690}, {64, 60}, {300, 150}, {16, 5}, {257, 256}};
		unsigned co = (unsigned) idx % 6;
		p.set("framing", framing); p.set("layer", 0);
		p.set("ecap", capoff[co][0]); p.set("eoff", capoff[co][1]);
		p.set("dcap", capoff[5 - co][0]); p.set("doff", capoff[5 - co][1]);
		p.set("egrow", 1);
		corpus_seq(sid, p.blobs);
		auto add = [&](int kind, int64_t a) { Op o; o.kind = kind; o.a = a; p.ops.push_back(o); };
		for (size_t i = 0; i < p.blobs.size(); ++i) {
			for (int rep = 0; rep < 6; ++rep) { if (!p.blobs[i].empty()) add(OP_WPUSH, 1000000); add(OP_WFLUSH, 1000000); }
			add(OP_WTERM, 0); add(OP_WFLUSH, 1000000); add(OP_WTERM, 0); add(OP_WFLUSH, 1000000);
		}
		if (cut == ncut - 1) {
			for (size_t i = 0; i < ncut + 4; ++i) { add(OP_NET, 1); add(OP_RRECV, 0); }
		} else {
			if (cut) add(OP_NET, (int64_t) cut);
			add(OP_RRECV, 0); add(OP_RRECV, 0);
			add(OP_NET, 1000000);
		}
	}

	// ------------------------------------------------------------ state of one run
	struct Run {
		int framing = 0;
		std::vector<Bytes> msgs;
		// what the reader gets for message i: the message itself, for command text preceded by the header the decoder writes
		Bytes expect(size_t i) const { if (framing != ref::COMMAND) return msgs[i]; Bytes e = {0x04, ' '}; e.insert(e.end(), msgs[i].begin(), msgs[i].end()); return e; }
		void admit() { if (framing == ref::COMMAND) for (auto &m : msgs) for (auto &b : m) if (!b) b = 0x2e; }      // command text admits no zero byte
		// writer
		size_t mi = 0, mpos = 0;          // current message, bytes of it handed to the encoder
		std::vector<size_t> completed;    // indices of messages whose terminate succeeded
		bool crashed = false;
		size_t complete_bytes = 0;        // finished bytes in the write queue that belong to completed messages
		std::vector<size_t> frame_bytes;  // encoded size of each completed message, in completion order
		bool partial_sent = false;        // finished blocks of the message in progress have already left the queue
		// wire
		std::deque<uint8_t> wire;         // flushed, not yet delivered
		uint64_t wire_total = 0, delivered_total = 0;
		std::vector<uint64_t> frame_end;  // wire offset (exclusive) at which completed message i ends (by delimiter count)
		uint64_t delims_delivered = 0;
		// reader
		size_t received = 0;
		uint64_t steps_since_complete = 0;
	};

	static void setup_queue(queue &q, size_t cap, size_t off) {
		q.base = malloc(cap); // library may realloc/free it
		memset(q.base, 0xEE, cap);
		q.max = cap; q.len = 0; q.off = cap ? off % cap : 0;
	}
	static void check_queue(const queue &q, const char *who) {
		if (q.len > q.max || (q.max && q.off > q.max) || (q.max && !q.base))
			fail("queue-state", "%s queue inconsistent: len=%zu max=%zu off=%zu", who, q.len, q.max, q.off);
	}
	static Bytes queue_bytes(const queue &q) {
		Bytes b(q.len);
		if (q.len) { Sut s; if (mpt_queue_get(&q, 0, q.len, b.data()) < 0) fail("queue-state", "cannot read %zu queue bytes", q.len); }
		return b;
	}

	void exec(const Plan &p, Log &log, Stats &st) override {
		if (p.get("layer") == 2) exec_memory(p, log, st); else if (p.get("layer")) exec_stream(p, log, st); else exec_queue(p, log, st);
		if (ledger_live()) fail("leak", "%zu block(s) still allocated after the run: %s", ledger_live(), ledger_describe().c_str());
	}
	void exec_queue(const Plan &p, Log &log, Stats &st) {
		Run R;
		R.framing = (int) p.get("framing"); if (R.framing < 0 || R.framing > 4) R.framing &= 3;
		R.msgs = p.blobs; R.admit();
		if (R.msgs.size() > 12) R.msgs.resize(12);
		const bool egrow = p.get("egrow") != 0, cxxq = p.get("cxxq") != 0;
		size_t ecap = (size_t) std::min<int64_t>(std::max<int64_t>(p.get("ecap", 64), 4), 4096);
		size_t dcap = (size_t) std::min<int64_t>(std::max<int64_t>(p.get("dcap", 64), 4), 4096);
		encode_queue eq(encoder_for(R.framing));
		decode_queue dq(decoder_for(R.framing));
		setup_queue(eq, ecap, (size_t) std::max<int64_t>(p.get("eoff"), 0));
		setup_queue(dq, dcap, (size_t) std::max<int64_t>(p.get("doff"), 0));
		struct Free { queue &a, &b; ~Free() { free(a.base); free(b.base); a.base = b.base = 0; a.max = b.max = a.len = b.len = 0; } } fr{eq, dq};
		log.ev("pipe Q framing=%s msgs=%zu ecap=%zu eoff=%zu dcap=%zu doff=%zu egrow=%d", ref::framing_name(R.framing), R.msgs.size(), eq.max, eq.off, dq.max, dq.off, (int) egrow);
		st.hit(std::string("framing:") + ref::framing_name(R.framing));
		st.hit("layer:Q");

		auto abstract = [&](int opk, int outcome) {
			int ewrap = eq.off + eq.len > eq.max, dwrap = dq.off + dq.len > dq.max;
			size_t slack = dq._state.curr - std::min(dq._state.curr, dq._state.data.pos + dq._state.data.len);
			int phase = dq._state.data.msg >= 0 ? 2 : dq._state._ctx ? 1 : 0;
			st.state(10 + opk, R.framing * 64 + ewrap * 32 + dwrap * 16 + phase * 4 + (slack > 2 ? 3 : (int) slack), outcome);
		};

		// ---- writer
		auto w_push = [&](size_t k, uint64_t failn) -> ssize_t {
			const Bytes &m = R.msgs[R.mi];
			Block src(k, 0); memcpy(src.p, m.data() + R.mpos, k);
			bool lower_wrap = eq.off && eq._state.done < eq.max - eq.off && (eq.max - eq.off - eq._state.done) < eq._state.scratch;
			ssize_t r; uint64_t fired = 0;
			{ Sut s; if (cxxq) { SUT_GUARD_ABORT(r = eq.push(k, src.p)); } else { SUT_GUARD_ABORT(r = mpt_queue_push(&eq, k, src.p)); } }
			check_queue(eq, "encode");
			if (eq.len != eq._state.done + eq._state.scratch) fail("queue-state", "after push: queue len %zu != done %zu + scratch %zu", eq.len, eq._state.done, eq._state.scratch);
			if (r > (ssize_t) k) fail("consumed-too-much", "queue push consumed %zd of %zu", r, k);
			if (lower_wrap) st.hit("probe:push_out_of_band_scratch");
			if (eq.off + eq.len > eq.max) st.hit("probe:encode_queue_wrapped");
			if (r > 0) R.mpos += (size_t) r;
			if (r < 0 && egrow && eq._state.done == 0) {
				size_t got; { Sut s(failn); got = mpt_queue_prepare(&eq, 256); fired = g.fired; }
				if (fired) st.hit("fault:allocfail");
				log.ev("W_GROW -> free %zu max=%zu%s", got, eq.max, fired ? " allocfail" : "");
				check_queue(eq, "encode");
			}
			log.ev("W_PUSH m%zu %zu -> %zd done=%zu scratch=%zu len=%zu off=%zu", R.mi, k, r, eq._state.done, eq._state.scratch, eq.len, eq.off);
			abstract(OP_WPUSH, r < 0 ? 0 : r == 0 ? 1 : (size_t) r < k ? 2 : 3);
			if (r < 0) st.hit("fault:queue_full");
			return r;
		};
		auto w_term = [&]() -> ssize_t {
			ssize_t r;
			{ Sut s; SUT_GUARD_ABORT(r = mpt_queue_push(&eq, 0, 0)); }
			check_queue(eq, "encode");
			log.ev("W_TERM m%zu -> %zd done=%zu scratch=%zu len=%zu off=%zu", R.mi, r, eq._state.done, eq._state.scratch, eq.len, eq.off);
			abstract(OP_WTERM, r < 0 ? 0 : 1);
			if (r >= 0) {
				if (eq._state.scratch) fail("queue-state", "terminate left scratch=%zu", eq._state.scratch);
				R.frame_bytes.push_back(R.partial_sent ? (size_t) -1 : eq._state.done - R.complete_bytes); R.completed.push_back(R.mi); ++R.mi; R.mpos = 0; R.complete_bytes = eq._state.done; R.partial_sent = false;
			} else st.hit("fault:queue_full");
			return r;
		};
		auto w_grow = [&]() {
			size_t got; { Sut s; got = mpt_queue_prepare(&eq, 256); }
			log.ev("W_GROW(drain) -> free %zu max=%zu", got, eq.max);
			check_queue(eq, "encode");
		};
		auto w_flush = [&](size_t n) -> size_t {
			size_t k = std::min(n, eq._state.done);
			if (!k) return 0;
			Bytes buf(k);
			int rc; { Sut s; rc = mpt_queue_get(&eq, 0, k, buf.data()); }
			if (rc < 0) fail("queue-state", "cannot read %zu finished bytes from encode queue (len %zu)", k, eq.len);
			if (cxxq) { bool ok; size_t d0 = eq._state.done; { Sut s; ok = eq.trim(k); } if (!ok || eq._state.done + k != d0) fail("queue-state", "encode_queue::trim(%zu) with %zu finished bytes -> %d, %zu finished bytes left", k, d0, (int) ok, eq._state.done); st.hit("probe:cxx_encode_queue"); }
			else {
			{ Sut s; rc = mpt_queue_crop(&eq, 0, k); }
			if (rc < 0) fail("queue-state", "cannot crop %zu finished bytes from encode queue (len %zu)", k, eq.len);
			eq._state.done -= k;
			}
			if (k > R.complete_bytes) { R.partial_sent = true; R.complete_bytes = 0; } else R.complete_bytes -= k;
			check_queue(eq, "encode");
			for (uint8_t b : buf) R.wire.push_back(b);
			R.wire_total += k;
			log.ev("W_FLUSH %zu -> wire %s", k, sim::hex(buf, 24).c_str());
			abstract(OP_WFLUSH, 1);
			return k;
		};
		// ---- network + reader queue load (protocol of mpt_stream_poll: shift, grow if full, load what fits)
		auto net = [&](int64_t want, uint64_t failn) -> size_t {
			if (R.wire.empty()) return 0;
			size_t n;
			if (want == -1 || want == -2) {          // cut right after the next delimiter / one code byte behind it
				n = 0; while (n < R.wire.size() && R.wire[n] != 0) ++n;
				n = std::min(R.wire.size(), n + (want == -1 ? 1 : 2));
			} else n = (size_t) std::min<int64_t>(std::max<int64_t>(want, 1), (int64_t) R.wire.size());
			{ Sut s; mpt_queue_shift(&dq); }
			check_queue(dq, "decode");
			if (dq.len == dq.max) {
				size_t got; uint64_t fired; { Sut s(failn); got = mpt_queue_prepare(&dq, 64); fired = g.fired; }
				if (fired) st.hit("fault:allocfail");
				log.ev("R_GROW -> free %zu max=%zu%s", got, dq.max, fired ? " allocfail" : "");
				check_queue(dq, "decode");
				st.hit("probe:reader_queue_full_grown");
				if (!got) return 0;
			}
			n = std::min(n, dq.max - dq.len);
			Bytes buf(R.wire.begin(), R.wire.begin() + n);
			int rc; { Sut s; rc = mpt_qpush(&dq, n, buf.data()); }
			if (rc < 0) fail("queue-state", "qpush of %zu bytes refused with %zu free", n, dq.max - dq.len);
			check_queue(dq, "decode");
			for (size_t i = 0; i < n; ++i) { if (!R.wire.front()) ++R.delims_delivered; R.wire.pop_front(); }
			R.delivered_total += n;
			if (dq.off + dq.len > dq.max) st.hit("probe:decode_queue_wrapped");
			if (n == 1) st.hit("fault:single_byte_delivery"); else st.hit("fault:segment_cut");
			log.ev("NET_DELIVER %zu %s -> dq len=%zu off=%zu max=%zu", n, sim::hex(buf, 16).c_str(), dq.len, dq.off, dq.max);
			abstract(OP_NET, n > 1);
			return n;
		};
		auto r_grow = [&](uint64_t failn) {
			size_t need = (dq.max - dq.len) + 64;
			size_t got; uint64_t fired; { Sut s(failn); got = mpt_queue_prepare(&dq, need); fired = g.fired; }
			if (fired) st.hit("fault:allocfail");
			log.ev("R_GROW(asked) -> free %zu max=%zu%s", got, dq.max, fired ? " allocfail" : "");
			check_queue(dq, "decode");
			st.hit("probe:reader_granted_space_after_MissingBuffer");
		};
		auto r_recv = [&](uint64_t failn) -> int {
			int r;
			{ Sut s; SUT_GUARD_ABORT(r = mpt_queue_recv(&dq)); }
			check_queue(dq, "decode");
			const decode_state &ds = dq._state;
			log.ev("R_RECV -> %d curr=%zu pos=%zu len=%zu msg=%zd qlen=%zu off=%zu", r, ds.curr, ds.data.pos, ds.data.len, ds.data.msg, dq.len, dq.off);
			abstract(OP_RRECV, r < 0 ? (r == E_MissingBuffer ? 0 : r == E_MissingData ? 1 : 2) : 3 + r);
			if (ds.curr > dq.len || ds.data.pos + ds.data.len > ds.curr)
				fail("decode-state", "after recv: curr=%zu pos=%zu len=%zu exceed queue len %zu", ds.curr, ds.data.pos, ds.data.len, dq.len);
			if (r > 0) {
				if (ds.data.msg < 0) fail("decode-state", "recv reports a message but none is marked");
				message m; struct iovec vec;
				int g; if (cxxq) { bool ok; { Sut s; ok = dq.current_message(m, &vec); } g = ok ? (m.clen ? 1 : 0) : -1; st.hit("probe:cxx_decode_queue_current_message"); } else { Sut s; g = mpt_message_get(&dq, ds.data.pos, (size_t) ds.data.msg, &m, &vec); }
				if (g < 0) fail("decode-state", "message window (pos %zu, len %zd) not inside queue of %zu bytes", ds.data.pos, ds.data.msg, dq.len);
				if (g == 1) st.hit("probe:message_in_two_fragments");
				Bytes got((size_t) ds.data.msg);
				size_t rd; { Sut s; rd = mpt_message_read(&m, got.size(), got.data()); }
				if (rd != got.size()) fail("decode-state", "message of %zu bytes only readable to %zu", got.size(), rd);
				// safety: received sequence is a prefix of the completed sequence
				if (R.received >= R.completed.size())
					fail("invented", "receiver got message #%zu (%zu bytes %s) but the sender completed only %zu", R.received + 1, got.size(), sim::hex(got, 16).c_str(), R.completed.size());
				const Bytes want = R.expect(R.completed[R.received]);
				if (got != want) {
					size_t d = 0; while (d < got.size() && d < want.size() && got[d] == want[d]) ++d;
					fail("corrupt", "message #%zu arrived as %zu bytes, sent %zu bytes; first difference at %zu (got %s want %s)", R.received + 1, got.size(), want.size(), d,
					     sim::hex(got.data() + d, got.size() - d, 8).c_str(), sim::hex(want.data() + d, want.size() - d, 8).c_str());
				}
				++R.received;
				st.hit("messages_received");
			} else if (r == E_MissingBuffer) {
				st.hit("fault:decoder_needs_space");
				r_grow(failn);
			} else if (r < 0 && r != E_MissingData) {
				fail("recv-error", "recv reports error %d on a valid stream (queue %zu bytes, curr=%zu)", r, dq.len, ds.curr);
			}
			return r;
		};
		auto r_peek = [&](size_t max) {
			Bytes before = queue_bytes(dq);
			decode_state sb = dq._state;
			Bytes dst(max, 0xCC);
			ssize_t pending = dq._state.data.msg;
			ssize_t r; { Sut s; SUT_GUARD_ABORT(r = mpt_queue_peek(&dq, max, max ? dst.data() : 0)); }
			check_queue(dq, "decode");
			log.ev("R_PEEK %zu -> %zd", max, r);
			if (pending >= 0 && r > 0 && max && R.received) {
				// a complete message is waiting (received, not yet released): the preview is the start of that message
				const Bytes want = R.expect(R.completed[R.received - 1]);
				size_t n = std::min<size_t>(std::min<size_t>((size_t) r, max), want.size());
				for (size_t i = 0; i < n; ++i) if (dst[i] != want[i]) fail("corrupt", "peek reports %zd bytes of the waiting message #%zu but byte %zu of the preview is %02x, the message has %02x there", r, R.received, i, dst[i], want[i]);
				st.hit("probe:peek_at_waiting_message");
			}
			else if (pending < 0 && r > 0 && max && R.received < R.completed.size()) {
				// a message still being received: the preview is the start of what has been decoded of it so far, wherever the queue wraps
				const Bytes want = R.expect(R.completed[R.received]);
				size_t n = std::min<size_t>(std::min<size_t>((size_t) r, max), want.size());
				for (size_t i = 0; i < n; ++i) if (dst[i] != want[i]) fail("corrupt", "peek reports %zd decoded bytes of message #%zu in progress but byte %zu of the preview is %02x, the message has %02x there (queue off=%zu len=%zu max=%zu)", r, R.received + 1, i, dst[i], want[i], dq.off, dq.len, dq.max);
				st.hit("probe:peek_at_message_in_progress");
			}
			abstract(OP_RPEEK, r < 0 ? 0 : 1);
			(void) before; (void) sb;
		};

		// ---- scheduled part
		for (const Op &op : p.ops) {
			uint64_t failn = op.fault == FL_ALLOC ? 1 : 0;
			switch (op.kind) {
			case OP_WPUSH: {
				if (R.crashed || R.mi >= R.msgs.size()) break;
				size_t k = std::min<size_t>((size_t) std::max<int64_t>(op.a, 1), R.msgs[R.mi].size() - R.mpos);
				if (!k) break;
				st.hit("op:W_PUSH"); w_push(k, failn); break;
			}
			case OP_WTERM:
				if (R.crashed || R.mi >= R.msgs.size() || R.mpos < R.msgs[R.mi].size()) break;
				st.hit("op:W_TERM"); w_term(); break;
			case OP_WABORT: {
				if (R.crashed || R.mi >= R.msgs.size()) break;
				if (!R.mpos) {
					// nothing in progress: the request means the last finished message, which can go only while all of it is still queued
					bool whole = !R.completed.empty() && R.frame_bytes.back() <= R.complete_bytes;
					ssize_t r; { Sut s; SUT_GUARD_ABORT(r = mpt_queue_push(&eq, 1, 0)); }
					check_queue(eq, "encode");
					log.ev("W_ABORT (idle) -> %zd done=%zu len=%zu", r, eq._state.done, eq.len); st.hit("op:W_ABORT_IDLE");
					if (r >= 0) {
						if (!whole) fail("abort-merged", "dropping a finished message succeeded although %s", R.completed.empty() ? "none was queued" : "part of it is already on the wire");
						R.complete_bytes -= R.frame_bytes.back(); R.frame_bytes.pop_back(); R.completed.pop_back();
						if (eq._state.done != R.complete_bytes || eq._state.scratch || eq.len != eq._state.done) fail("queue-state", "after dropping the last finished message: done=%zu scratch=%zu len=%zu, %zu finished bytes expected", eq._state.done, eq._state.scratch, eq.len, R.complete_bytes);
					} else if (eq._state.done != R.complete_bytes && !R.partial_sent) fail("queue-state", "a refused drop changed the finished size to %zu (%zu expected)", eq._state.done, R.complete_bytes);
					break;
				}
				st.hit("op:W_ABORT");
				ssize_t r; { Sut s; SUT_GUARD_ABORT(r = mpt_queue_push(&eq, 1, 0)); }
				check_queue(eq, "encode");
				log.ev("W_ABORT m%zu after %zu bytes -> %zd done=%zu scratch=%zu len=%zu off=%zu", R.mi, R.mpos, r, eq._state.done, eq._state.scratch, eq.len, eq.off);
				abstract(OP_WABORT, r < 0 ? 0 : 1);
				if (r < 0) {
					// refusing is the honest answer once finished blocks of this message have been flushed; the message then simply continues
					// (command text has no block structure: its encoder finds the start of the message by the preceding delimiter, so with nothing in front it cannot tell)
					if (!R.partial_sent && !(R.framing == ref::COMMAND && !R.complete_bytes)) fail("abort-refused", "dropping the message in progress failed (%zd) although none of it had left the queue", r);
					st.hit("probe:abort_refused_after_partial_flush");
					break;
				}
				if (R.partial_sent) fail("abort-merged", "a message whose first blocks are already on the wire was reported as dropped");
				if (eq._state.scratch || eq.len != eq._state.done) fail("queue-state", "after dropping a message: done=%zu scratch=%zu len=%zu", eq._state.done, eq._state.scratch, eq.len);
				if (eq._state.done != R.complete_bytes) fail("queue-state", "after dropping a message %zu finished bytes remain, %zu belong to completed messages", eq._state.done, R.complete_bytes);
				++R.mi; R.mpos = 0;      // never completed: the reader must not see any of it
				break;
			}
			case OP_WFLUSH:
				if (R.crashed) break;
				if (w_flush((size_t) std::max<int64_t>(op.a, 1))) st.hit("op:W_FLUSH");
				break;
			case OP_NET:
				if (net(op.a, failn)) st.hit("op:NET_DELIVER");
				break;
			case OP_RRECV: st.hit("op:R_RECV"); r_recv(failn); break;
			case OP_RPEEK: st.hit("op:R_PEEK"); r_peek((size_t) std::min<int64_t>(std::max<int64_t>(op.a, 0), 4096)); break;
			case OP_WCRASH:
				if (R.crashed) break;
				// writer process dies: what reached the wire stays, part of the finished bytes may still go out
				{ size_t k = w_flush((size_t) std::max<int64_t>(op.a, 0)); (void) k; }
				R.crashed = true; st.hit("fault:writer_crash"); log.ev("W_CRASH");
				break;
			}
		}
		// ---- fault-free drain
		size_t guard = 0;
		if (!R.crashed) {
			while (R.mi < R.msgs.size()) {
				if (++guard > 40000) fail("stall", "writer cannot finish message %zu (%zu of %zu bytes) without faults: done=%zu scratch=%zu len=%zu max=%zu",
				                          R.mi, R.mpos, R.msgs[R.mi].size(), eq._state.done, eq._state.scratch, eq.len, eq.max);
				ssize_t r = R.mpos < R.msgs[R.mi].size() ? w_push(R.msgs[R.mi].size() - R.mpos, 0) : w_term();
				if (r < 0 || (r == 0 && R.mi < R.msgs.size() && R.mpos < R.msgs[R.mi].size())) {
					if (!w_flush(1000000)) w_grow();
				}
			}
			w_flush(1000000);
			if (eq.len) fail("queue-state", "encode queue holds %zu bytes after everything was flushed", eq.len);
		}
		// wire -> reader; reader steps; every complete frame must surface within the bound
		uint64_t delims_on_wire = 0; for (uint8_t b : R.wire) if (!b) ++delims_on_wire;
		size_t deliverable = 0; // messages whose last byte is on the wire or already delivered
		{
			uint64_t total_delims = R.delims_delivered + delims_on_wire;
			deliverable = (size_t) std::min<uint64_t>(total_delims, R.completed.size());
		}
		guard = 0;
		while (!R.wire.empty()) {
			if (++guard > 100000) fail("stall", "reader queue cannot take the %zu bytes left on the wire (len=%zu max=%zu)", R.wire.size(), dq.len, dq.max);
			if (!net(1000000, 0)) {
				// queue full although grown: the reader has to consume first
				int r = r_recv(0);
				(void) r;
			}
		}
		size_t pending = deliverable > R.received ? deliverable - R.received : 0;
		size_t total_bytes = 0; for (auto &m : R.msgs) total_bytes += m.size();
		size_t bound = 4 * (pending + 2) + total_bytes / 16 + 8, steps = 0;
		while (R.received < deliverable) {
			if (++steps > bound)
				fail("stall", "%s: all bytes delivered, %zu of %zu complete messages received after %zu reader steps (queue len=%zu max=%zu curr=%zu pos=%zu dlen=%zu)",
				     ref::framing_name(R.framing), R.received, deliverable, steps, dq.len, dq.max, dq._state.curr, dq._state.data.pos, dq._state.data.len);
			r_recv(0);
		}
		// nothing beyond what was completed may ever surface (torn frame after a crash)
		for (int i = 0; i < 3; ++i) {
			int r = r_recv(0);
			if (r > 0) fail("invented", "receiver got a message after all completed ones were delivered");
		}
		log.ev("END completed=%zu received=%zu crashed=%d", R.completed.size(), R.received, (int) R.crashed);
	}

	// ------------------------------------------------------------ layer S
	struct Rx { PipeWorld *w; Run *R; Log *log; Stats *st; int calls; };
	static int on_message(void *arg, const message *m) {
		Harness h;
		Rx *rx = (Rx *) arg; Run &R = *rx->R;
		++rx->calls;
		message tmp = *m;
		size_t len = mpt_message_length(&tmp);
		Bytes got(len);
		size_t rd = mpt_message_read(&tmp, len, got.data());
		rx->log->ev("  callback message %zu bytes %s", len, sim::hex(got, 16).c_str());
		if (rd != len) { pend("decode-state", "message of %zu bytes only readable to %zu", len, rd); return 0; }
		if (R.received >= R.completed.size()) {
			pend("invented", "receiver got message #%zu (%zu bytes %s) but the sender completed only %zu", R.received + 1, len, sim::hex(got, 16).c_str(), R.completed.size());
			return 0;
		}
		const Bytes want = R.expect(R.completed[R.received]);
		if (got != want) {
			size_t d = 0; while (d < got.size() && d < want.size() && got[d] == want[d]) ++d;
			pend("corrupt", "message #%zu arrived as %zu bytes, sent %zu bytes; first difference at %zu (got %s want %s)", R.received + 1, got.size(), want.size(), d,
			     sim::hex(got.data() + d, got.size() - d, 8).c_str(), sim::hex(want.data() + d, want.size() - d, 8).c_str());
			return 0;
		}
		++R.received;
		rx->st->hit("messages_received");
		return 0;
	}
	void exec_stream(const Plan &p, Log &log, Stats &st) {
		Run R;
		R.framing = (int) p.get("framing"); if (R.framing < 0 || R.framing > 4) R.framing &= 3;
		R.msgs = p.blobs; R.admit();
		if (R.msgs.size() > 12) R.msgs.resize(12);
		size_t chancap = (size_t) std::min<int64_t>(std::max<int64_t>(p.get("chancap", 4096), 1), 1 << 20);
		int ch = simio::new_chan(chancap);
		int wfd = simio::new_fd(-1, ch, O_WRONLY | O_NONBLOCK);
		int rfd = simio::new_fd(ch, -1, O_RDONLY | O_NONBLOCK);
		poll_pending = false; strict_reader = p.get("strict") != 0; if (strict_reader) st.hit("probe:strict_reader");
		log.ev("pipe S framing=%s msgs=%zu chancap=%zu%s", ref::framing_name(R.framing), R.msgs.size(), chancap, strict_reader ? " strict reader" : "");
		st.hit(std::string("framing:") + ref::framing_name(R.framing));
		st.hit("layer:S");
		{
		stream ws, rs;
		ws._wd._enc = encoder_for(R.framing);
		rs._rd._dec = decoder_for(R.framing);
		int rc;
		{ Sut s; socket sk; sk._id = wfd; rc = mpt_stream_dopen(&ws, &sk, stream::Write | stream::WriteBuf); sk._id = -1; /* descriptor now owned by the stream */ }
		if (rc < 0) fail("setup", "mpt_stream_dopen(write) failed %d", rc);
		{ Sut s; socket sk; sk._id = rfd; rc = mpt_stream_dopen(&rs, &sk, stream::Read | stream::ReadBuf); sk._id = -1; }
		if (rc < 0) fail("setup", "mpt_stream_dopen(read) failed %d", rc);
		Rx rx{this, &R, &log, &st, 0};
		uint64_t eof_seen = 0, delim_count = 0;
		// (where the C++ stream types can be copied at all, a copy that is made and goes away is nobody's close: both streams keep working)
		if (p.seed & 8) { bool c1 = try_copy_obj(ws), c2 = try_copy_obj(rs), c3 = try_copy_obj(ws._info); log.ev("copies of writer stream %d, reader stream %d, stream info %d", (int) c1, (int) c2, (int) c3); st.hit(c1 || c2 || c3 ? "probe:cxx_stream_copied" : "probe:cxx_stream_not_copyable"); }

		auto abstract = [&](int opk, int outcome) {
			const queue &eq = ws._wd, &dq = rs._rd;
			int ewrap = eq.max && eq.off + eq.len > eq.max, dwrap = dq.max && dq.off + dq.len > dq.max;
			const decode_state &ds = rs._rd._state;
			size_t slack = ds.curr - std::min(ds.curr, ds.data.pos + ds.data.len);
			int phase = ds.data.msg >= 0 ? 2 : ds._ctx ? 1 : 0;
			st.state(40 + opk, R.framing * 64 + ewrap * 32 + dwrap * 16 + phase * 4 + (slack > 2 ? 3 : (int) slack), outcome);
		};
		auto w_push = [&](size_t k, uint64_t failn) -> ssize_t {
			const Bytes &m = R.msgs[R.mi];
			Block src(k, 0); memcpy(src.p, m.data() + R.mpos, k);
			ssize_t r; uint64_t fired;
			{ Sut s(failn); SUT_GUARD_ABORT(r = mpt_stream_push(&ws, k, src.p)); fired = g.fired; }
			if (fired) st.hit("fault:allocfail");
			check_queue(ws._wd, "stream write");
			if (r > (ssize_t) k) fail("consumed-too-much", "stream push consumed %zd of %zu", r, k);
			if (r > 0) R.mpos += (size_t) r;
			log.ev("W_PUSH m%zu %zu%s -> %zd done=%zu scratch=%zu len=%zu max=%zu off=%zu", R.mi, k, fired ? " allocfail" : "", r, ws._wd._state.done, ws._wd._state.scratch, ws._wd.len, ws._wd.max, ws._wd.off);
			abstract(OP_WPUSH, (fired ? 4 : 0) + (r < 0 ? 0 : r == 0 ? 1 : (size_t) r < k ? 2 : 3));
			return r;
		};
		auto w_term = [&](uint64_t failn) -> ssize_t {
			ssize_t r; uint64_t fired;
			{ Sut s(failn); SUT_GUARD_ABORT(r = mpt_stream_push(&ws, 0, 0)); fired = g.fired; }
			if (fired) st.hit("fault:allocfail");
			check_queue(ws._wd, "stream write");
			log.ev("W_TERM m%zu%s -> %zd done=%zu scratch=%zu len=%zu", R.mi, fired ? " allocfail" : "", r, ws._wd._state.done, ws._wd._state.scratch, ws._wd.len);
			abstract(OP_WTERM, r < 0 ? 0 : 1);
			if (r >= 0) { R.frame_bytes.push_back(R.partial_sent ? (size_t) -1 : ws._wd._state.done - R.complete_bytes); R.completed.push_back(R.mi); ++R.mi; R.mpos = 0; R.complete_bytes = ws._wd._state.done; R.partial_sent = false; }
			return r;
		};
		auto w_flush = [&](int fault, int64_t fa, bool bypoll = false) -> int {
			simio::Fd *f = simio::get(wfd);
			static const int map[] = {0, 0, simio::F_SHORT, simio::F_EAGAIN, simio::F_EINTR};
			f->wfault = fault >= FL_SHORT && fault <= FL_EINTR ? map[fault] : 0; f->wfa = fa;
			size_t done_before = ws._wd._state.done;
			uint64_t wr_before = simio::chan(ch)->written;
			int r;
			// (the writer may also wait for room with an unlimited poll for output, which flushes what is finished as soon as the descriptor takes data)
			size_t room = simio::chan(ch)->cap - std::min(simio::chan(ch)->cap, simio::chan(ch)->wire.size() + simio::chan(ch)->avail.size());
			if (bypoll) { Sut s; SUT_GUARD_ABORT(r = mpt_stream_poll(&ws, POLLOUT, -1)); }
			else { Sut s; SUT_GUARD_ABORT(r = mpt_stream_flush(&ws)); }
			f->wfault = 0;
			uint64_t wrote = simio::chan(ch)->written - wr_before;
			if (bypoll) { st.hit("probe:flush_by_poll_for_output"); if (done_before && room && !wrote && !simio::chan(ch)->rclosed) fail("stall", "poll for output without time limit (%d) wrote nothing although %zu finished bytes wait and the descriptor has room for %zu", r, done_before, room); }
			if (wrote > R.complete_bytes) { R.partial_sent = true; R.complete_bytes = 0; } else R.complete_bytes -= (size_t) wrote;
			{ simio::Chan *c = simio::chan(ch); for (uint64_t i = 0; i < wrote && i < c->wire.size(); ++i) if (!c->wire[c->wire.size() - 1 - i]) ++delim_count; }
			check_queue(ws._wd, "stream write");
			log.ev("W_FLUSH%s -> %d wrote=%llu done %zu->%zu len=%zu", fault ? FAULTS[fault] : "", r, (unsigned long long) wrote, done_before, ws._wd._state.done, ws._wd.len);
			if (ws._wd._state.done + wrote != done_before)
				fail("flush-accounting", "flush wrote %llu bytes but finished size went %zu -> %zu", (unsigned long long) wrote, done_before, ws._wd._state.done);
			if (ws._wd.len != ws._wd._state.done + ws._wd._state.scratch)
				fail("queue-state", "after flush: queue len %zu != done %zu + scratch %zu", ws._wd.len, ws._wd._state.done, ws._wd._state.scratch);
			abstract(OP_WFLUSH, (fault ? 4 : 0) + (r < 0 ? 0 : 1 + (r > 0)));
			return r;
		};
		auto net = [&](int64_t want) -> size_t {
			simio::Chan *c = simio::chan(ch);
			if (c->wire.empty()) return 0;
			size_t n;
			if (want == -1 || want == -2) {
				n = 0; while (n < c->wire.size() && c->wire[n] != 0) ++n;
				n = std::min(c->wire.size(), n + (want == -1 ? 1 : 2));
			} else n = (size_t) std::min<int64_t>(std::max<int64_t>(want, 1), (int64_t) c->wire.size());
			n = simio::deliver(ch, n);
			if (n == 1) st.hit("fault:single_byte_delivery"); else st.hit("fault:segment_cut");
			log.ev("NET_DELIVER %zu", n);
			return n;
		};
		auto r_poll = [&](int timeout, int fault, int64_t fa, uint64_t failn) -> int {
			simio::Fd *f = simio::get(rfd);
			static const int map[] = {0, 0, simio::F_SHORT, simio::F_EAGAIN, simio::F_EINTR};
			f->rfault = fault >= FL_SHORT && fault <= FL_EINTR ? map[fault] : 0; f->rfa = fa;
			int r; uint64_t fired;
			{ Sut s(failn); SUT_GUARD_ABORT(r = mpt_stream_poll(&rs, POLLIN, timeout)); fired = g.fired; }
			f->rfault = 0;
			if (fired) st.hit("fault:allocfail");
			check_queue(rs._rd, "stream read");
			const decode_state &ds = rs._rd._state;
			log.ev("R_POLL t=%d%s%s -> %d qlen=%zu max=%zu off=%zu curr=%zu pos=%zu len=%zu msg=%zd now=%lld", timeout, fault ? FAULTS[fault] : "", fired ? " allocfail" : "", r,
			       rs._rd.len, rs._rd.max, rs._rd.off, ds.curr, ds.data.pos, ds.data.len, ds.data.msg, (long long) simio::S.now_ms);
			if (ds.curr > rs._rd.len || ds.data.pos + ds.data.len > ds.curr)
				fail("decode-state", "after poll: curr=%zu pos=%zu len=%zu exceed queue len %zu", ds.curr, ds.data.pos, ds.data.len, rs._rd.len);
			if (r > 0) poll_pending = true;
			abstract(OP_RPOLL, (fault ? 8 : 0) + (r < 0 ? 0 : 1));
			return r;
		};
		auto r_dispatch = [&]() -> int {
			int before = rx.calls;
			int r;
			poll_pending = false;
			{ Sut s; SUT_GUARD_ABORT(r = mpt_stream_dispatch(&rs, on_message, &rx)); }
			check_pending();
			check_queue(rs._rd, "stream read");
			const decode_state &ds = rs._rd._state;
			log.ev("R_DISPATCH -> %d calls=%d qlen=%zu curr=%zu pos=%zu len=%zu msg=%zd", r, rx.calls - before, rs._rd.len, ds.curr, ds.data.pos, ds.data.len, ds.data.msg);
			if (rx.calls - before > 1) fail("dispatch-multi", "one dispatch call invoked the handler %d times", rx.calls - before);
			// the stream owns a read buffer that can grow: "the decoder needs space" is for the stream to settle, not an error for its caller
			// (an event loop drops an input whose dispatch fails, and the complete frame with it)
			if (r == E_MissingBuffer) {
				Bytes qb = queue_bytes(rs._rd); bool complete = false; for (size_t i = ds.curr; i < qb.size(); ++i) if (!qb[i]) { complete = true; break; }
				if (complete) fail("stall", "stream dispatch reports 'missing buffer' (%d) although the rest of the frame (delimiter included) is in its growable read buffer (%zu of %zu bytes used, decoded up to %zu)", r, rs._rd.len, rs._rd.max, ds.curr);
				st.hit("probe:dispatch_needs_space_on_partial_frame");
			}
			abstract(OP_RRECV, r < 0 ? 0 : 1 + (rx.calls - before) + 2 * ((r & 0x10000) != 0));
			return r;
		};
		for (const Op &op : p.ops) {
			uint64_t failn = op.fault == FL_ALLOC ? (uint64_t) std::max<int64_t>(op.fa, 1) : 0;
			switch (op.kind) {
			case OP_WPUSH: {
				if (R.crashed || R.mi >= R.msgs.size()) break;
				size_t k = std::min<size_t>((size_t) std::max<int64_t>(op.a, 1), R.msgs[R.mi].size() - R.mpos);
				if (!k) break;
				st.hit("op:W_PUSH"); w_push(k, failn); break;
			}
			case OP_WTERM:
				if (R.crashed || R.mi >= R.msgs.size() || R.mpos < R.msgs[R.mi].size()) break;
				st.hit("op:W_TERM"); w_term(failn); break;
			case OP_WABORT: {
				if (R.crashed || R.mi >= R.msgs.size() || !R.mpos) break;
				st.hit("op:W_ABORT");
				ssize_t r; { Sut s; SUT_GUARD_ABORT(r = mpt_stream_push(&ws, 1, 0)); }
				check_queue(ws._wd, "stream write");
				log.ev("W_ABORT m%zu after %zu bytes -> %zd", R.mi, R.mpos, r);
				abstract(OP_WABORT, r < 0 ? 0 : 1);
				if (r < 0) {
					if (!R.partial_sent && !(R.framing == ref::COMMAND && !R.complete_bytes)) fail("abort-refused", "dropping the message in progress failed (%zd) although none of it had left the queue", r);
					st.hit("probe:abort_refused_after_partial_flush");
					break;
				}
				if (R.partial_sent) fail("abort-merged", "a message whose first blocks are already on the wire was reported as dropped");
				++R.mi; R.mpos = 0;
				break;
			}
			case OP_WFLUSH:
				if (R.crashed) break;
				st.hit("op:W_FLUSH");
				if (op.fault >= FL_SHORT) st.hit(std::string("fault:writev_") + FAULTS[op.fault]);
				w_flush(op.fault, op.fa, op.fault < FL_SHORT && (op.a % 3) == 1); break;
			case OP_NET: if (net(op.a)) st.hit("op:NET_DELIVER"); break;
			case OP_RPOLL:
				st.hit("op:R_POLL");
				if (op.fault >= FL_SHORT) st.hit(std::string("fault:readv_") + FAULTS[op.fault]);
				r_poll((int) std::min<int64_t>(std::max<int64_t>(op.a, 0), 60000), op.fault, op.fa, failn); break;
			case OP_RRECV: st.hit("op:R_DISPATCH"); r_dispatch(); break;
			case OP_RPEEK: break;
			case OP_WCRASH:
				if (R.crashed) break;
				// writer process dies: descriptor closed with whatever is in its buffers lost
				close(wfd);
				R.crashed = true; st.hit("fault:writer_crash"); log.ev("W_CRASH (descriptor closed)");
				break;
			}
		}
		// ---- fault-free drain
		size_t guard = 0;
		if (!R.crashed) {
			while (R.mi < R.msgs.size()) {
				if (++guard > 20000) fail("stall", "stream writer cannot finish message %zu (%zu of %zu bytes) without faults", R.mi, R.mpos, R.msgs[R.mi].size());
				ssize_t r = R.mpos < R.msgs[R.mi].size() ? w_push(R.msgs[R.mi].size() - R.mpos, 0) : w_term(0);
				if (r < 0) { w_flush(0, 0); simio::deliver(ch, 1 << 20); drain_reader(r_poll, r_dispatch); }
			}
		}
		// flush everything the writer finished; the channel has finite capacity, so reader and network run too
		guard = 0;
		uint64_t delims = 0;
		while (true) {
			if (++guard > 40000) fail("stall", "S: %zu of %zu complete messages received (write queue %zu bytes, wire %zu, readable %zu, read queue %zu bytes curr=%zu)",
			                         R.received, R.completed.size(), ws._wd.len, simio::chan(ch)->wire.size(), simio::chan(ch)->avail.size(), rs._rd.len, rs._rd._state.curr);
			bool progress = false;
			if (!R.crashed && ws._wd._state.done) { size_t d = ws._wd._state.done; w_flush(0, 0); progress |= ws._wd._state.done != d; }
			if (simio::deliver(ch, 1 << 20)) progress = true;
			size_t before = R.received; size_t qb = rs._rd.len;
			drain_reader(r_poll, r_dispatch);
			progress |= R.received != before || rs._rd.len != qb;
			bool writer_idle = R.crashed || !ws._wd._state.done;
			if (writer_idle && simio::chan(ch)->wire.empty() && simio::chan(ch)->avail.empty() && !progress) break;
		}
		(void) delims;
		// every message whose frame reached the wire completely must have arrived
		size_t deliverable = R.completed.size();
		if (R.crashed) {
			// frames not (completely) written when the descriptor was closed are lost; count delimiters that reached the channel
			deliverable = std::min<size_t>(R.completed.size(), (size_t) delim_count);
		}
		if (R.received < deliverable)
			fail("stall", "S %s: all bytes delivered, only %zu of %zu complete messages received (read queue %zu bytes curr=%zu pos=%zu len=%zu msg=%zd)", ref::framing_name(R.framing),
			     R.received, deliverable, rs._rd.len, rs._rd._state.curr, rs._rd._state.data.pos, rs._rd._state.data.len, rs._rd._state.data.msg);
		st.hit("sim:ms", (uint64_t) simio::S.now_ms);
		(void) eof_seen;
		log.ev("END completed=%zu received=%zu crashed=%d now=%lld", R.completed.size(), R.received, (int) R.crashed, (long long) simio::S.now_ms);
		}
	}
	// ---- layer M: a writer stream over a fixed memory area (no descriptor, no growth), then a reader stream over what was written
	void exec_memory(const Plan &p, Log &log, Stats &st) {
		Run R;
		R.framing = (int) p.get("framing") & 3;
		R.msgs = p.blobs; if (R.msgs.size() > 12) R.msgs.resize(12);
		size_t cap = (size_t) std::min<int64_t>(std::max<int64_t>(p.get("memcap", 300), 1), 1 << 16);
		Block area(cap, 0); memset(area.p, 0xEE, cap);
		log.ev("pipe M framing=%s msgs=%zu area=%zu bytes", ref::framing_name(R.framing), R.msgs.size(), cap);
		st.hit(std::string("framing:") + ref::framing_name(R.framing)); st.hit("layer:M");
		size_t finished = 0;
		{
			stream ws; struct iovec ov; ov.iov_base = area.p; ov.iov_len = cap;
			int rc; { Sut s; rc = mpt_stream_memory(&ws, 0, &ov); }
			if (rc < 0) fail("setup", "mpt_stream_memory(write) failed %d", rc);
			ws._wd._enc = encoder_for(R.framing);
			auto step = [&](bool term, size_t k) -> ssize_t {
				ssize_t r;
				if (term) { { Sut s; SUT_GUARD_ABORT(r = mpt_stream_push(&ws, 0, 0)); } log.ev("W_TERM m%zu -> %zd done=%zu len=%zu", R.mi, r, ws._wd._state.done, ws._wd.len); if (r >= 0) { R.completed.push_back(R.mi); ++R.mi; R.mpos = 0; } }
				else { const Bytes &m = R.msgs[R.mi]; Block src(k, 0); memcpy(src.p, m.data() + R.mpos, k); { Sut s; SUT_GUARD_ABORT(r = mpt_stream_push(&ws, k, src.p)); }
					log.ev("W_PUSH m%zu %zu -> %zd done=%zu scratch=%zu len=%zu", R.mi, k, r, ws._wd._state.done, ws._wd._state.scratch, ws._wd.len); if (r > (ssize_t) k) fail("consumed-too-much", "stream push consumed %zd of %zu", r, k); if (r > 0) R.mpos += (size_t) r; }
				if (ws._wd.base != area.p || ws._wd.max != cap) fail("queue-state", "memory stream left its area (base %p max %zu)", ws._wd.base, ws._wd.max);
				if (ws._wd.len > cap || ws._wd._state.done + ws._wd._state.scratch != ws._wd.len) fail("queue-state", "memory stream: done=%zu scratch=%zu len=%zu area=%zu", ws._wd._state.done, ws._wd._state.scratch, ws._wd.len, cap);
				return r;
			};
			bool full = false;
			for (const Op &op : p.ops) {
				if (full || R.mi >= R.msgs.size()) break;
				if (op.kind == OP_WPUSH) { size_t k = std::min<size_t>((size_t) std::max<int64_t>(op.a, 1), R.msgs[R.mi].size() - R.mpos); if (!k) continue; st.hit("op:W_PUSH"); if (step(false, k) < 0) { full = true; st.hit("fault:area_full"); } }
				else if (op.kind == OP_WTERM) { if (R.mpos < R.msgs[R.mi].size()) continue; st.hit("op:W_TERM"); if (step(true, 0) < 0) { full = true; st.hit("fault:area_full"); } }
			}
			// drain: the remaining messages as far as the area takes them
			for (size_t guard = 0; !full && R.mi < R.msgs.size() && guard < 4096; ++guard) {
				ssize_t r = R.mpos < R.msgs[R.mi].size() ? step(false, R.msgs[R.mi].size() - R.mpos) : step(true, 0);
				if (r < 0 || (r == 0 && R.mpos < R.msgs[R.mi < R.msgs.size() ? R.mi : 0].size() && R.mi < R.msgs.size())) { full = true; st.hit("fault:area_full"); }
			}
			finished = ws._wd._state.done;
			if (ws._wd.off) fail("queue-state", "memory stream moved its start to %zu", ws._wd.off);
			ws._wd.base = 0; ws._wd.max = ws._wd.len = 0;       // the area belongs to the harness
		}
		// what is finished in the area is read back through a reader stream over exactly those bytes
		{
			Block in(finished, 0); if (finished) memcpy(in.p, area.p, finished);
			stream rs; struct iovec iv; iv.iov_base = in.p; iv.iov_len = finished;
			int rc; { Sut s; rc = mpt_stream_memory(&rs, &iv, 0); }
			if (rc < 0) fail("setup", "mpt_stream_memory(read) failed %d", rc);
			rs._rd._dec = decoder_for(R.framing);
			Rx rx{this, &R, &log, &st, 0};
			int last = 0;
			for (int i = 0; i < 64; ++i) { size_t before = R.received; int d; { Sut s; SUT_GUARD_ABORT(d = mpt_stream_dispatch(&rs, on_message, &rx)); } check_pending(); log.ev("R_DISPATCH -> %d", d); last = d; if (d < 0 || (R.received == before && !(d & 0x10000))) break; }
			check_pending();
			// a fixed area has no room for a decoder that must expand what it reads (zero-pair framings): "needs space" is then an honest end
			if (last == E_MissingBuffer && R.framing >= 2 && R.received < R.completed.size()) st.hit("probe:memory_reader_needs_space");
			else if (R.received != R.completed.size()) fail("stall", "M %s: %zu messages were completed in the memory area (%zu finished bytes), %zu were read back", ref::framing_name(R.framing), R.completed.size(), finished, R.received);
			else if (finished && (p.seed & 1)) {
				// the same reader stream is given a second source (as io::stream::open does with its stream): it reads that from its first byte
				Block in2(finished, 0); memcpy(in2.p, area.p, finished);
				struct iovec iv2; iv2.iov_base = in2.p; iv2.iov_len = finished;
				rs._rd.base = 0; rs._rd.max = rs._rd.len = 0;
				{ Sut s; rc = mpt_stream_memory(&rs, &iv2, 0); }
				if (rc < 0) fail("setup", "mpt_stream_memory(read) on a used stream failed %d", rc);
				R.received = 0;
				for (int i = 0; i < 64; ++i) { size_t before = R.received; int d; { Sut s; SUT_GUARD_ABORT(d = mpt_stream_dispatch(&rs, on_message, &rx)); } check_pending(); log.ev("R_DISPATCH (second source) -> %d", d); last = d; if (d < 0 || (R.received == before && !(d & 0x10000))) break; }
				check_pending();
				if (last == E_MissingBuffer && R.framing >= 2 && R.received < R.completed.size()) st.hit("probe:memory_reader_needs_space");
				else if (R.received != R.completed.size()) fail("stall", "M %s: a reader stream given a second source of the same %zu bytes read %zu of its %zu messages", ref::framing_name(R.framing), finished, R.received, R.completed.size());
				st.hit("probe:memory_reader_second_source");
				rs._rd.base = 0; rs._rd.max = rs._rd.len = 0;
			}
			rs._rd.base = 0; rs._rd.max = rs._rd.len = 0;
		}
		log.ev("END completed=%zu received=%zu", R.completed.size(), R.received);
	}
	bool strict_reader = false, poll_pending = false;      // poll_pending: a poll reported input that no dispatch has looked at yet
	template <class P, class D> void drain_reader(P &r_poll, D &r_dispatch) {
		if (strict_reader) {
			// the protocol of an event loop: dispatch only when poll reports something, repeat only while dispatch asks for it (Retry flag)
			for (int i = 0; i < 256; ++i) {
				int pr = r_poll(0, 0, 0, 0);
				if (pr > 0 || poll_pending) { int d = r_dispatch(), more = 0; while (d >= 0 && (d & 0x10000) && ++more < 256) d = r_dispatch(); }
				if (pr <= 0 && !simio_readable()) break;
			}
			return;
		}
		for (int i = 0; i < 64; ++i) {
			int pr = r_poll(0, 0, 0, 0);
			int d = r_dispatch();
			int more = 0;
			while (d >= 0 && (d & 0x10000) && ++more < 64) d = r_dispatch();
			if (pr < 0 && !(d > 0)) break;
			if (!simio_readable()) { // nothing more to load; one more dispatch round to pick up decoded messages
				d = r_dispatch();
				while (d >= 0 && (d & 0x10000) && ++more < 128) d = r_dispatch();
				break;
			}
		}
	}
	static bool simio_readable() { for (auto &c : simio::S.chans) if (!c.avail.empty()) return true; return false; }
};

namespace sim { World *the_world() { static PipeWorld w; return &w; } }
// 
