// world `dispatch` (C11): history of register / replace / unregister / emit on one
// dispatcher; handlers are harness records that return plan-chosen flags or
// errors and may re-enter the dispatcher.  Reply-id reservation runs on its own
// command array.  Allocation failures are attached to operations.
#include "worlds/common.hpp"
#include <type_traits>

using namespace sim;
using namespace mpt;

enum { OP_SET, OP_REPLACE, OP_CLEAR, OP_EMIT_ID, OP_EMIT_MSG, OP_EMIT_DEFAULT, OP_HASH, OP_RESERVE, OP_UNRESERVE, OP_SET_ERR, OP_FINI };
static const char *const OPS[] = {"SET", "REPLACE", "CLEAR", "EMIT_ID", "EMIT_MSG", "EMIT_DEFAULT", "HASH", "RESERVE", "UNRESERVE", "SET_ERR", "FINI", 0};
enum { FL_NONE, FL_ALLOC };
static const char *const FAULTS[] = {"none", "allocfail", 0};

struct Rec {
	int index; uintptr_t id; bool is_fallback;
	bool registered = false, ended = false;
	int eol = 0, invoked = 0;
	// behaviour when invoked
	int ret = 0; int set_id = -1;      // value to store in ev->id before returning (-1: leave)
	int reenter = 0; uintptr_t reenter_id = 0; // 1: register a new record for reenter_id, 2: clear reenter_id
};
template <typename T> static bool try_copy(T &from) {
	if constexpr (std::is_copy_constructible<T>::value) { Sut s; T c(from); (void) c; return true; }
	else return false;
}
struct DWorld;
static DWorld *W;

static const uintptr_t IDS[] = {1, 2, 3, 4, 0x41, 0xff, 0x100, 0x7fffffff};
static const char *const NAMES[] = {"start", "stop", "x", "a-long-command-name-that-is-not-short"};

struct DWorld : World {
	const char *name() const override { return "dispatch"; }
	const char *const *opnames() const override { return OPS; }
	const char *const *faultnames() const override { return FAULTS; }
	const char *components_json() const override {
		return "{\"real\":[\"mpt_dispatch_init/fini/set/emit/hash\",\"mpt_command_set/get/clear/find/empty/reserve\",\"command traits\",\"mpt_hash (djb2)\",\"typed command buffer growth (mpt_array_insert/detach)\",\"C++ dispatch::set_error\"],"
		       "\"stub\":[\"handlers (records returning plan-chosen flags/errors, may re-enter the dispatcher)\",\"messages\",\"allocator (ledger + n-th allocation fails)\",\"map id -> registration reference model\"]}";
	}
	void gen(Rng &r, Plan &p, int tier) override {
		p.set("fallback", r.chance(3, 4));
		p.set("cxxwait", r.chance(1, 4));
		p.set("reserve_first", r.chance(1, 5));   // the dispatcher's own table comes into being through a reply-id reservation (C++: dispatch is a command::array)
		int nops = (int) r.range(1, tier ? 120 : 50);
		bool allocf = r.chance(1, 3);
		for (int i = 0; i < nops; ++i) {
			Op op;
			static const int kinds[] = {OP_SET, OP_SET, OP_SET, OP_REPLACE, OP_CLEAR, OP_CLEAR, OP_EMIT_ID, OP_EMIT_ID, OP_EMIT_ID, OP_EMIT_MSG, OP_EMIT_DEFAULT, OP_EMIT_DEFAULT, OP_HASH, OP_RESERVE, OP_RESERVE, OP_UNRESERVE, OP_SET_ERR, OP_FINI};
			op.kind = r.pick(kinds);
			if (op.kind == OP_FINI && !r.chance(1, 4)) op.kind = OP_EMIT_ID;
			op.a = r.below(12);                 // id selector (8 ids, 4 hashed names)
			// handler behaviour of a record created by this op: b = return selector | set_id selector << 8 | reenter << 16 | reenter id << 20
			op.b = r.below(8) | (r.below(4) << 8) | ((r.chance(1, 5) ? 1 + r.below(3) : 0) << 16) | (r.below(12) << 20);
			op.c = r.below(9) + 9 * r.below(1 << 20);     // reserve width (c % 9) and variant bits of the other ops
			if (op.kind == OP_RESERVE && r.chance(1, 40)) op.b |= 0x3000;      // burst through the whole one-byte id space
			else if (op.kind == OP_RESERVE && r.chance(1, 8)) op.b |= 0x5000;  // reservation on the dispatcher's own table
			if (allocf && r.chance(1, 4)) { op.fault = FL_ALLOC; op.fa = r.range(1, 2); }
			p.ops.push_back(op);
		}
	}
	// ---- run state
	dispatch *D = 0;
	std::vector<Rec *> recs;
	std::map<uintptr_t, Rec *> live;       // model: id -> registration
	Rec *fallback = 0;
	uintptr_t model_def = 0;
	std::vector<Rec *> calls;              // invocation log of the current op
	Log *lg = 0; Stats *stp = 0;
	bool lib_fallback = false, in_eol = false, eol_emitted = false, in_emit = false;

	static uintptr_t sel_id(int64_t a) {
		a %= 12; if (a < 8) return IDS[a];
		return mpt_hash(NAMES[a - 8], (int) strlen(NAMES[a - 8]));
	}
	Rec *new_rec(uintptr_t id, int64_t b, bool fb) {
		Rec *r = new Rec(); r->index = (int) recs.size(); r->id = id; r->is_fallback = fb;
		static const int rets[] = {0, 0, 1 /*Default*/, 3 /*Default|Fail*/, 2 /*Fail*/, 4 /*Terminate*/, -1, -0x10};
		r->ret = rets[b & 7];
		int s = (int) ((b >> 8) & 3); r->set_id = s == 0 ? -1 : s == 1 ? 0 : s == 2 ? (int) IDS[(b >> 20) % 4] : -1;
		r->reenter = (int) ((b >> 16) & 3); r->reenter_id = sel_id((b >> 20) & 0xfff);
		recs.push_back(r); return r;
	}
	static int handler(void *arg, event *ev) {
		Harness h;
		Rec *r = (Rec *) arg; DWorld &w = *W;
		if (++g.cb_calls > 10000) { pend("callback-loop", "handlers invoked more than 10000 times in one run"); return -1; }
		if (!ev) {
			++r->eol;
			w.lg->ev("    end-of-life #%d (id %lx)", r->index, (unsigned long) r->id);
			if (r->eol > 1) pend("double-end-of-life", "registration #%d (id %lx) received %d end-of-life notifications", r->index, (unsigned long) r->id, r->eol);
			if (!r->registered) pend("end-of-life-unregistered", "record #%d was never registered but received an end-of-life notification", r->index);
			r->ended = true;
			// (only when the notification comes straight from the op - clear, replace, teardown - and the event goes to a handler that does
			// nothing special itself: deeper nesting is real but beyond what the model follows)
			if (r->reenter == 3 && w.D && !w.in_eol && !w.in_emit && (!w.live.count(r->reenter_id) || w.live[r->reenter_id]->reenter == 0)) {
				// the end-of-life callback uses the dispatcher: whatever it reaches must be a handler that has not been told it ended
				w.in_eol = true; w.eol_emitted = true;
				event e2; e2.id = r->reenter_id;
				w.lg->ev("    end-of-life #%d emits id %lx", r->index, (unsigned long) e2.id);
				{ Reenter s; mpt_dispatch_emit(w.D, &e2); }
				w.stp->hit("probe:emit_from_end_of_life");
				w.in_eol = false;
			}
			return 0;
		}
		++r->invoked;
		w.lg->ev("    invoke #%d (id %lx) ev->id=%lx", r->index, (unsigned long) r->id, (unsigned long) ev->id);
		if (r->ended) pend("invoked-after-end", "registration #%d (id %lx) invoked after its end-of-life notification", r->index, (unsigned long) r->id);
		if (!r->registered) pend("invoked-unregistered", "record #%d was never registered but is invoked", r->index);
		if (!w.in_eol) w.calls.push_back(r);      // (an event emitted by an end-of-life callback is not the one the op is about)
		// re-enter the dispatcher from inside the callback
		if (r->reenter == 1 && !w.live.count(r->reenter_id)) {
			Rec *n = w.new_rec(r->reenter_id, 0, false);
			int rc; { Sut s; rc = mpt_dispatch_set(w.D, n->id, handler, n); }
			w.lg->ev("    re-enter SET id %lx -> %d", (unsigned long) n->id, rc);
			if (rc >= 0) { n->registered = true; w.live[n->id] = n; }
			w.stp->hit("probe:reentrant_registration");
		} else if (r->reenter == 2 && w.live.count(r->reenter_id) && r->reenter_id != r->id) {
			Rec *o = w.live[r->reenter_id];
			int rc; { Sut s; rc = mpt_dispatch_set(w.D, o->id, 0, 0); }
			w.lg->ev("    re-enter CLEAR id %lx -> %d", (unsigned long) o->id, rc);
			if (rc >= 0) { w.live.erase(o->id); if (o->eol != 1) pend("missing-end-of-life", "re-entrant clear of id %lx: %d end-of-life calls", (unsigned long) o->id, o->eol); }
			w.stp->hit("probe:reentrant_clear");
		}
		if (r->set_id >= 0) ev->id = (uintptr_t) r->set_id;
		return r->ret;
	}
	void expect_eol(Rec *r, const char *what) {
		if (r->eol != 1) fail("missing-end-of-life", "%s: registration #%d (id %lx) received %d end-of-life notifications, want exactly 1", what, r->index, (unsigned long) r->id, r->eol);
	}
	void audit(const char *after) {
		check_pending();
		// every record: registered & live  <=> no end-of-life yet
		for (Rec *r : recs) {
			bool is_live = (r->is_fallback && fallback == r) || (live.count(r->id) && live[r->id] == r);
			if (r->registered && !is_live && r->eol != 1) fail("missing-end-of-life", "after %s: registration #%d (id %lx) is gone but received %d end-of-life notifications", after, r->index, (unsigned long) r->id, r->eol);
			if (is_live && r->eol) fail("early-end-of-life", "after %s: registration #%d (id %lx) is still registered but was already told it ended", after, r->index, (unsigned long) r->id);
			if (!r->registered && r->eol > 1) fail("double-end-of-life", "after %s: refused record #%d got %d end-of-life notifications", after, r->index, r->eol);
		}
		// the table agrees with the model
		for (auto &kv : live) {
			command *c; { Sut s; c = mpt_command_get(D, kv.first); }
			if (!c || c->arg != kv.second) fail("lost-registration", "after %s: id %lx does not resolve to its registration", after, (unsigned long) kv.first);
		}
		for (size_t i = 0; i < 12; ++i) {
			uintptr_t id = sel_id((int64_t) i);
			if (live.count(id)) continue;
			command *c; { Sut s; c = mpt_command_get(D, id); }
			if (c) fail("ghost-registration", "after %s: id %lx resolves to a handler although none is registered", after, (unsigned long) id);
		}
		if (eol_emitted) { model_def = D->_def; eol_emitted = false; }      // an end-of-life callback emitted an event of its own: its flags moved the default outside the model
		if (D->_def != model_def) fail("default-id", "after %s: default event id is %lx, the returned flags imply %lx", after, (unsigned long) D->_def, (unsigned long) model_def);
	}

	void exec(const Plan &p, Log &log, Stats &st) override {
		in_eol = eol_emitted = in_emit = false;
		W = this; lg = &log; stp = &st;
		for (Rec *r : recs) delete r;
		recs.clear(); live.clear(); fallback = 0; model_def = 0; calls.clear();
		lib_fallback = !p.get("fallback", 1);
		// C layout of the dispatcher and of the reservation array (the C++ classes add constructors that attach a shared dummy buffer)
		struct CDispatch { buffer *buf; uintptr_t def; struct { event_handler_t cmd; void *arg; } err; metatype *ctx; } cd;
		static_assert(sizeof(CDispatch) == sizeof(dispatch), "dispatch layout");
		D = reinterpret_cast<dispatch *>(&cd);
		{ Sut s; mpt_dispatch_init(D); }
		struct CArr { buffer *buf; } wa; wa.buf = 0;          // reply-id reservations live on their own command array: a C one (starts without buffer)
		// ... or, in a quarter of the runs, a C++ command::array as io::stream keeps one (its constructor attaches an empty typed buffer)
		command::array *cxxwait = 0; if (p.get("cxxwait")) { Sut s; cxxwait = new command::array(); st.hit("probe:cxx_command_array"); }
		unique_array<command> &waitarr = cxxwait ? *static_cast<unique_array<command> *>(cxxwait) : *reinterpret_cast<unique_array<command> *>(&wa);
		std::set<uintptr_t> reserved;
		if (!lib_fallback) { fallback = new_rec(0, 0, true); fallback->registered = true; { Sut s; D->set_error(handler, fallback); } }
		log.ev("dispatch fallback=%s", lib_fallback ? "library default" : "harness");
		if (p.get("reserve_first")) {
			// first use of the table is a reservation: the slot becomes a registration like any other (reached by its id, told once when it ends)
			command *c; { Sut s; c = mpt_command_reserve(reinterpret_cast<unique_array<command> *>(D), 2); }
			if (!c) fail("refused-valid", "reservation on an empty dispatcher table refused");
			Rec *r = new_rec(c->id, 0, false); r->registered = true;
			c->cmd = (int (*)(void *, void *)) handler; c->arg = r;
			live[c->id] = r;
			log.ev("RESERVE on the dispatcher table -> id %lx rec #%d", (unsigned long) c->id, r->index);
			st.hit("probe:table_created_by_reservation");
		}

		auto emit = [&](event *ev, uintptr_t target_id, bool has_target_id, const char *what, bool hashed) {
			calls.clear();
			Rec *expect = 0;
			if (has_target_id) expect = live.count(target_id) ? live[target_id] : fallback;
			int exp_ret_valid = expect != 0;
			Rec snap; if (expect) snap = *expect;
			int rc;
			in_emit = true;
			if (hashed) { Sut s; SUT_GUARD_ABORT(rc = mpt_dispatch_hash(D, ev)); }
			else { Sut s; SUT_GUARD_ABORT(rc = mpt_dispatch_emit(D, ev)); }
			in_emit = false;
			check_pending();
			log.ev("%s -> %d (handlers called: %zu)", what, rc, calls.size());
			if (!has_target_id) {
				if (!calls.empty()) fail("wrong-handler", "%s: a handler was invoked although no default event is set", what);
				return;
			}
			if (!expect) { // library fallback handles it: no harness handler may run
				if (!calls.empty()) fail("wrong-handler", "%s: handler #%d invoked for unregistered id %lx", what, calls[0]->index, (unsigned long) target_id);
				if (!hashed) model_def = D->_def; // the library's own fallback decides; not modelled
				return;
			}
			if (calls.size() != 1 || calls[0] != expect)
				fail("wrong-handler", "%s: expected exactly one invocation of #%d (id %lx%s), got %zu invocation(s)%s", what, expect->index, (unsigned long) target_id, expect->is_fallback ? ", fallback" : "",
				     calls.size(), calls.empty() ? "" : (calls[0] == expect ? " incl. repeats" : " of another handler"));
			// returned flags and default bookkeeping
			int r = expect->ret;
			uintptr_t evid = expect->set_id >= 0 ? (uintptr_t) expect->set_id : target_id;
			if (hashed) { // dispatch_hash hands the handler's result through (errors become the event's fail flags)
				if (r >= 0 && rc != r) fail("wrong-result", "%s: handler returned %d, dispatcher reports %d", what, r, rc);
				if (r < 0 && rc >= 0 && !(rc & 2)) fail("wrong-result", "%s: handler failed with %d, dispatcher reports %d", what, r, rc);
				return;
			}
			if (r < 0) { if (rc != r) fail("wrong-result", "%s: handler failed with %d, dispatcher reports %d", what, r, rc); return; }
			int state = r;
			if (r & 1) { state &= ~1; model_def = evid; }
			if (model_def) state |= 1;
			if (rc != state) fail("wrong-result", "%s: handler returned flags %x (event id left at %lx), dispatcher reports %x, want %x", what, r, (unsigned long) evid, rc, state);
			(void) exp_ret_valid; (void) snap;
		};

		for (const Op &op : p.ops) {
			uintptr_t id = sel_id(op.a);
			uint64_t failn = op.fault == FL_ALLOC ? (uint64_t) std::max<int64_t>(op.fa, 1) : 0, fired = 0;
			st.hit(std::string("op:") + OPS[op.kind]);
			int outcome = 0;
			switch (op.kind) {
			case OP_SET: {
				Rec *r = new_rec(id, op.b, false);
				int rc; { Sut s(failn); if (op.c & 1) rc = D->set_handler(id, handler, r) ? 0 : -1; else rc = mpt_dispatch_set(D, id, handler, r); fired = g.fired; }
				if (op.c & 1) { st.hit("probe:cxx_set_handler"); command *c; { Sut s; c = D->handler(id); } if ((rc >= 0 || live.count(id)) && !c) fail("lost-registration", "C++ handler(%lx) finds nothing after set_handler", (unsigned long) id); }
				log.ev("SET id %lx rec #%d%s -> %d", (unsigned long) id, r->index, fired ? " allocfail" : "", rc);
				if (live.count(id)) { if (rc >= 0) fail("duplicate-accepted", "second registration for id %lx accepted", (unsigned long) id); }
				else if (rc < 0) { if (!fired) fail("refused-valid", "registration of id %lx refused (%d) without allocation fault", (unsigned long) id, rc); }
				else { r->registered = true; live[id] = r; outcome = 1; }
				break;
			}
			case OP_REPLACE: {
				Rec *r = new_rec(id, op.b, false);
				Rec *old = live.count(id) ? live[id] : 0;
				r->registered = true;      // the new handler is in place while the old one is told of its end (and may use the dispatcher)
				int rc; { Sut s(failn); rc = mpt_command_set(D, id, (int (*)(void *, void *)) handler, r); fired = g.fired; }
				if (rc < 0) r->registered = false;
				log.ev("REPLACE id %lx rec #%d%s -> %d", (unsigned long) id, r->index, fired ? " allocfail" : "", rc);
				if (rc < 0) { if (!fired) fail("refused-valid", "command_set for id %lx refused (%d) without allocation fault", (unsigned long) id, rc); }
				else { r->registered = true; live[id] = r; if (old) expect_eol(old, "replace"); outcome = old ? 2 : 1; }
				break;
			}
			case OP_CLEAR: {
				Rec *old = live.count(id) ? live[id] : 0;
				int rc; { Sut s; rc = mpt_dispatch_set(D, id, 0, 0); }
				log.ev("CLEAR id %lx -> %d", (unsigned long) id, rc);
				if (!old) { if (rc >= 0) fail("cleared-nothing", "unregistering id %lx succeeded although nothing was registered", (unsigned long) id); }
				else if (rc < 0) fail("refused-valid", "unregistering id %lx refused (%d)", (unsigned long) id, rc);
				else { live.erase(id); expect_eol(old, "clear"); if (model_def == id) {/* default id may dangle: emit(NULL) then reports it */} outcome = 1; }
				break;
			}
			case OP_SET_ERR + 100: break;
			case OP_EMIT_ID: {
				if ((op.c % 4) == 3) {
					// C++ set_default: only an id with a handler can become the default event
					bool ok; { Sut s; ok = D->set_default(id); }
					log.ev("SET_DEFAULT id %lx -> %d", (unsigned long) id, (int) ok); st.hit("probe:cxx_set_default");
					if (ok != (live.count(id) != 0)) fail("default-id", "set_default(%lx) %s although %s handler is registered for it", (unsigned long) id, ok ? "accepted" : "refused", live.count(id) ? "a" : "no");
					if (ok) model_def = id;
				}
				event ev; ev.id = id;
				char what[64]; snprintf(what, sizeof what, "EMIT id %lx", (unsigned long) id);
				emit(&ev, id, true, what, false); outcome = live.count(id) ? 1 : 2;
				break;
			}
			case OP_EMIT_MSG: {
				uint8_t b = (uint8_t) id; uintptr_t mid = b;
				Block data(3, 0); data.p[0] = b; data.p[1] = 'x'; data.p[2] = 'y';
				message m; m.base = data.p; m.used = 3; m.cont = 0; m.clen = 0;
				event ev; ev.msg = &m; ev.id = 0x5555;
				char what[64]; snprintf(what, sizeof what, "EMIT message first byte %02x", b);
				emit(&ev, mid, true, what, false); outcome = live.count(mid) ? 1 : 2;
				break;
			}
			case OP_EMIT_DEFAULT: {
				if (model_def && !live.count(model_def)) {
					// default id whose registration is gone: the dispatcher reports it and clears it
					int rc; calls.clear(); { Sut s; rc = mpt_dispatch_emit(D, 0); }
					log.ev("EMIT default (dangling %lx) -> %d", (unsigned long) model_def, rc);
					if (!calls.empty()) fail("wrong-handler", "default emit with dangling id invoked a handler");
					if (rc >= 0 && rc != 0) fail("wrong-result", "default emit whose handler is gone reports flags %x", rc);
					// a default event without handler is no default event any more: later emits must not advertise one
					model_def = 0; outcome = 3;
					break;
				}
				char what[64]; snprintf(what, sizeof what, "EMIT default (%lx)", (unsigned long) model_def);
				emit(0, model_def, model_def != 0, what, false); outcome = model_def ? 1 : 0;
				break;
			}
			case OP_HASH: {
				const char *nm = NAMES[op.a % 4];
				size_t nl = strlen(nm);
				Block data(2 + nl + 1 + 4, 0);
				data.p[0] = 0x04; data.p[1] = 0; memcpy(data.p + 2, nm, nl); data.p[2 + nl] = 0; memcpy(data.p + 3 + nl, "arg", 4);
				message m; m.base = data.p; m.used = data.n; m.cont = 0; m.clen = 0;
				struct iovec v; size_t cutat = (size_t) op.c % (data.n + 1);
				if (op.c & 1) { m.used = cutat; v.iov_base = data.p + cutat; v.iov_len = data.n - cutat; m.cont = &v; m.clen = 1; }
				event ev; ev.msg = &m;
				uintptr_t hid = mpt_hash(nm, (int) nl);
				char what[96]; snprintf(what, sizeof what, "HASH '%s'%s", nm, (op.c & 1) ? " fragmented" : "");
				if ((op.c >> 1) % 3 == 0) {
					// the same command as separator-delimited text ({Command, ' '} "  name arg"): leading separators are skipped, the message lies in
					// one, two or three fragments cut anywhere (also right behind the separators, also with an empty fragment in between)
					uint64_t z = ((uint64_t) op.c + 1) * 0x9e3779b97f4a7c15ull ^ ((uint64_t) op.b * 0xff51afd7ed558ccdull);
					size_t lead = (size_t) (z >> 8) % 4;
					// sometimes the command word is quoted and holds a separator: the quotes keep it one word, wherever the fragments are cut
					static const char quoted[] = "\"do it\"";
					if ((z >> 44) & 1) {
						nm = quoted; hid = mpt_hash(quoted, (int) strlen(quoted));
						if (!live.count(hid)) { Rec *qr = new_rec(hid, 0, false); int qrc; { Sut s; qrc = mpt_dispatch_set(D, hid, handler, qr); } if (qrc >= 0) { qr->registered = true; live[hid] = qr; } }
						st.hit("probe:hash_of_quoted_word");
					}
					std::string t; t.push_back(0x04); t.push_back(' '); t.append(lead, ' '); t += nm; t += " arg";
					Block tb(t.size(), 0); memcpy(tb.p, t.data(), t.size());
					size_t c1 = (size_t) (z >> 16) % (t.size() + 1), c2 = c1 + (size_t) (z >> 32) % (t.size() - c1 + 1);
					struct iovec fr[2];
					m.base = tb.p; m.used = c1; fr[0].iov_base = tb.p + c1; fr[0].iov_len = c2 - c1; fr[1].iov_base = tb.p + c2; fr[1].iov_len = t.size() - c2; m.cont = fr; m.clen = 2;
					snprintf(what, sizeof what, "HASH text '%s' after %zu separators, fragments %zu+%zu+%zu", nm, lead, c1, c2 - c1, t.size() - c2);
					st.hit("probe:hash_of_fragmented_text");
					emit(&ev, hid, true, what, true); outcome = live.count(hid) ? 1 : 2;
					break;
				}
				emit(&ev, hid, true, what, true); outcome = live.count(hid) ? 1 : 2;
				break;
			}
			case OP_RESERVE: {
				size_t width = (size_t) op.c % 9;
				if ((op.b & 0xf000) == 0x3000 && !failn) {
					// burst on a one-byte id space: reserve until refused (127 ids), release a random half, reserve again -
					// the ids handed out after the highest one was used must be ones that are free
					st.hit("probe:reply_id_space_exhausted");
					auto one = [&]() -> bool {
						command *c; { Sut s; c = mpt_command_reserve(&waitarr, 1); }
						if (!c) return false;
						if (reserved.count(c->id)) fail("duplicate-reply-id", "reply id %lx handed out while still outstanding (%zu outstanding)", (unsigned long) c->id, reserved.size());
						if (!c->id || c->id > 0x7f) fail("reply-id-range", "reply id %lx does not fit one header byte", (unsigned long) c->id);
						reserved.insert(c->id); return true;
					};
					int got = 0; while (got < 200 && one()) ++got;
					size_t small = 0; for (uintptr_t rid : reserved) if (rid <= 0x7f) ++small;
					if (small < 127) fail("refused-valid", "one-byte reply ids: reservation refused with only %zu of 127 ids outstanding", small);
					uint64_t x = (uint64_t) op.a * 0x9e3779b97f4a7c15ull + 1; int released = 0;
					for (auto it = reserved.begin(); it != reserved.end(); ) { x = x * 6364136223846793005ull + 1442695040888963407ull; if (*it <= 0x7f && ((x >> 33) & 1)) { command *c; { Sut s; c = mpt_command_get(&waitarr, *it); } if (!c) fail("lost-registration", "outstanding reply id %lx does not resolve", (unsigned long) *it); c->cmd = 0; it = reserved.erase(it); ++released; } else ++it; }
					int again = 0; while (again < released && one()) ++again;
					if (again < released) { std::string freeids; for (uintptr_t i = 1; i <= 0x7f; ++i) if (!reserved.count(i)) { char b[8]; snprintf(b, sizeof b, " %lx", (unsigned long) i); freeids += b; }
						const buffer *wb = cxxwait ? *reinterpret_cast<buffer **>(cxxwait) : wa.buf; size_t slots = wb ? wb->_used / sizeof(command) : 0; size_t act = 0; for (size_t k = 0; k < slots; ++k) if (((const command *) (wb + 1))[k].cmd) ++act;
						fail("refused-valid", "one-byte reply ids: %d ids were released but only %d could be reserved again; free ids:%s; table has %zu slots, %zu active, %zu outstanding in the model", released, again, freeids.c_str(), slots, act, reserved.size()); }
					for (uintptr_t rid : reserved) { command *f; { Sut s; f = mpt_command_get(&waitarr, rid); } if (!f) fail("lost-registration", "outstanding reply id %lx no longer resolves after the burst", (unsigned long) rid); }
					log.ev("RESERVE burst: %d reserved, %d released, %d reserved again, %zu outstanding", got, released, again, reserved.size());
					outcome = 2; break;
				}
				if ((op.b & 0xf000) == 0x5000 && width && !failn) {
					// a reservation on the dispatcher's own table (a C++ dispatch is its own command::array): the new id must be free among
					// everything registered there, whatever ids the handlers have - also the largest one
					if ((op.c & 8) && !live.count(UINTPTR_MAX)) {
						Rec *r = new_rec(UINTPTR_MAX, 0, false); int rc; { Sut s; rc = mpt_dispatch_set(D, UINTPTR_MAX, handler, r); }
						if (rc >= 0) { r->registered = true; live[UINTPTR_MAX] = r; st.hit("probe:handler_with_largest_id"); }
					}
					command *c; { Sut s; c = mpt_command_reserve(reinterpret_cast<unique_array<command> *>(D), width); }
					log.ev("RESERVE on the dispatcher table, width %zu -> %s id %lx", width, c ? "ok" : "null", c ? (unsigned long) c->id : 0ul);
					if (!c) { outcome = 0; break; }
					if (live.count(c->id)) fail("duplicate-reply-id", "reply id %lx reserved on the dispatcher table although a registration with that id is live", (unsigned long) c->id);
					static const uint64_t maxd[] = {0, 0x7f, 0x7fff, 0x7fffff, 0x7fffffff, 0x7fffffffffull, 0x7fffffffffffull, 0x7fffffffffffffull, 0x7fffffffffffffffull};
					if (!c->id || (uint64_t) c->id > maxd[width]) fail("reply-id-range", "reply id %lx reserved on the dispatcher table does not fit %zu header bytes", (unsigned long) c->id, width);
					Rec *r = new_rec(c->id, 0, false); r->registered = true;
					c->cmd = (int (*)(void *, void *)) handler; c->arg = r;
					live[c->id] = r;
					st.hit("probe:reservation_on_dispatcher_table");
					outcome = 3; break;
				}
				command *c; { Sut s(failn); c = mpt_command_reserve(&waitarr, width); fired = g.fired; }
				log.ev("RESERVE width %zu%s -> %s id %lx", width, fired ? " allocfail" : "", c ? "ok" : "null", c ? (unsigned long) c->id : 0ul);
				if (!c) { if (width && !fired && reserved.size() < 100) fail("refused-valid", "reservation of a reply id (width %zu) refused with %zu outstanding", width, reserved.size()); break; }
				if (!width) fail("accepted-invalid", "reservation with width 0 accepted");
				if (reserved.count(c->id)) fail("duplicate-reply-id", "reply id %lx handed out while still outstanding", (unsigned long) c->id);
				static const uint64_t maxw[] = {0, 0x7f, 0x7fff, 0x7fffff, 0x7fffffff, 0x7fffffffffull, 0x7fffffffffffull, 0x7fffffffffffffull, 0x7fffffffffffffffull};
				if (!c->id || (uint64_t) c->id > maxw[width]) fail("reply-id-range", "reply id %lx does not fit %zu header bytes", (unsigned long) c->id, width);
				reserved.insert(c->id); outcome = 1;
				// ids still outstanding must still resolve
				for (uintptr_t rid : reserved) { command *f; { Sut s; f = mpt_command_get(&waitarr, rid); } if (!f) fail("lost-registration", "outstanding reply id %lx no longer resolves after a new reservation", (unsigned long) rid); }
				break;
			}
			case OP_UNRESERVE: {
				if (reserved.empty()) break;
				auto it = reserved.begin(); std::advance(it, (size_t) op.a % reserved.size());
				command *c; { Sut s; c = mpt_command_get(&waitarr, *it); }
				if (!c) fail("lost-registration", "outstanding reply id %lx does not resolve", (unsigned long) *it);
				if (c->cmd && (op.c & 2)) {
					// the reply arrives first: the handler the reservation installed (the library's own, which logs the reply) gets the message,
					// the way a connection hands it over - an answer with an error, info or success code, an output message, anything else, nothing
					unsigned v = (unsigned) (op.c >> 2) % 6;
					uint8_t body[6] = {0, 0, 'n', 'o', 0, 0}; size_t bl = 4;
					if (v == 0) { body[0] = 0x00 /* Answer */; body[1] = (uint8_t) -1; } else if (v == 1) { body[0] = 0x00; body[1] = 3; } else if (v == 2) { body[0] = 0x00; body[1] = 0; bl = 1; }
					else if (v == 3) { body[0] = 0x01 /* Output */; body[1] = 2; } else if (v == 4) { body[0] = 0x7f; body[1] = 9; } else bl = 0;
					body[0] = v < 3 ? (uint8_t) msgtype::Answer : v == 3 ? (uint8_t) msgtype::Output : body[0];
					Block bb(bl + 1, 0); memcpy(bb.p, body, bl);
					message rm; rm.base = bb.p; rm.used = bl; rm.cont = 0; rm.clen = 0;
					int rr; { Sut s; SUT_GUARD_ABORT(rr = c->cmd(c->arg, v == 5 && (op.c & 64) ? 0 : (void *) &rm)); }
					log.ev("REPLY arrives for reserved id %lx (kind %u) -> %d", (unsigned long) *it, v, rr);
					st.hit("probe:reply_to_reserved_id_logged");
				}
				c->cmd = 0; // what the owner of a reservation does after the reply was handled (stream_input)
				log.ev("UNRESERVE id %lx", (unsigned long) *it);
				reserved.erase(it); outcome = 1;
				break;
			}
			case OP_SET_ERR: if ((op.c % 9) == 4) {
				// C++ value semantics: where a dispatcher or one of its command elements can be copied at all, the copy (and its going away) is
				// nobody's end of life - every registration stays registered, is told nothing, and keeps receiving its events
				bool cmdcopy = (op.c / 9) % 2 && !live.empty(); bool did;
				if (cmdcopy) { command *c; { Sut s; c = mpt_command_get(D, live.begin()->first); } did = c && try_copy(*c); }
				else did = try_copy(*D);
				log.ev("CXX_COPY of %s%s", cmdcopy ? "a command element" : "the dispatcher", did ? "" : " (type cannot be copied)");
				st.hit(did ? "probe:cxx_dispatch_copied" : "probe:cxx_dispatch_not_copyable");
				outcome = did; break;
			} else {
				if (fallback && (op.c % 9) == 2) {
					// the fallback handler that is installed is installed again (same function, same argument): it stays, and is told nothing
					{ Sut s; D->set_error(handler, fallback); }
					log.ev("SET_ERR rec #%d again", fallback->index); st.hit("probe:fallback_installed_again");
					outcome = 1; break;
				}
				Rec *r = new_rec(0, op.b, true); if (r->reenter != 3) r->reenter = 0;      // (a fallback handler may emit from its end-of-life notification, nothing else)
				Rec *old = fallback;
				r->registered = true;      // (before the call: the old handler's end-of-life notification may emit, and the event then belongs to the new one)
				{ Sut s; D->set_error(handler, r); }
				fallback = r; lib_fallback = false;
				log.ev("SET_ERR rec #%d", r->index);
				if (old) expect_eol(old, "fallback replaced");
				outcome = 1;
				break;
			}
			case OP_FINI: if ((op.c % 9) == 7 && !live.empty() && *reinterpret_cast<buffer **>(D) && (*reinterpret_cast<buffer **>(D))->_content_traits == mpt_command_traits()) {
				// (only a table of command elements: one that a reservation created as a plain byte buffer has no finaliser the container could run)
				// the table is emptied through its container interface (resize to nothing): every registration ends, the fallback handler and the
				// dispatcher itself stay; what an end-of-life notification emits must not reach a handler that was already told
				std::vector<Rec *> were; for (auto &kv : live) were.push_back(kv.second);
				bool ok; { Sut s; ok = D->resize(0); }
				live.clear();
				log.ev("RESIZE(0) of the table (%zu registrations) -> %d", were.size(), (int) ok);
				if (!ok) fail("refused-valid", "emptying the dispatcher's table was refused");
				for (Rec *r : were) expect_eol(r, "table emptied");
				st.hit("probe:table_emptied_by_resize"); outcome = 1;
				break;
			} else {
				std::vector<Rec *> were; for (auto &kv : live) were.push_back(kv.second);
				Rec *fb = fallback;
				{ Sut s; mpt_dispatch_fini(D); }
				log.ev("FINI (%zu registrations)", were.size());
				live.clear(); fallback = 0; model_def = 0;
				for (Rec *r : were) expect_eol(r, "dispatcher torn down");
				if (fb) expect_eol(fb, "dispatcher torn down (fallback)");
				{ Sut s; mpt_dispatch_init(D); }
				lib_fallback = true; outcome = 1;
				break;
			}
			}
			if (fired) st.hit("fault:allocfail");
			st.state(500 + op.kind, (live.size() > 3 ? 3 : live.size()) * 8 + (model_def ? 4 : 0) + (fired ? 2 : 0) + (lib_fallback ? 1 : 0), outcome);
			audit(OPS[op.kind]);
		}
		// teardown: destructor of the dispatcher
		std::vector<Rec *> were; for (auto &kv : live) were.push_back(kv.second);
		Rec *fb = fallback;
		{ Sut s; mpt_dispatch_fini(D); }
		live.clear(); fallback = 0;
		check_pending();
		for (Rec *r : were) expect_eol(r, "final teardown");
		if (fb) expect_eol(fb, "final teardown (fallback)");
		for (Rec *r : recs) if (r->registered && r->eol != 1) fail("missing-end-of-life", "after teardown: registration #%d got %d end-of-life notifications", r->index, r->eol);
		{ Sut s; mpt_array_clone(reinterpret_cast<array *>(&wa), 0); }
		if (cxxwait) { Sut s; delete cxxwait; }
		if (ledger_live()) fail("leak", "%zu block(s) allocated after teardown: %s", ledger_live(), ledger_describe().c_str());
	}
};

namespace sim { World *the_world() { static DWorld w; return &w; } }
