// world `registry` (C06): history of registrations and lookups on the process-
// global type tables, up to and past the capacity of each range, with allocation
// failures in table growth.  Each run starts from a reset registry.
#include "worlds/common.hpp"
#include "values.h"
#include "layout.h"
extern "C" void verif_registry_reset(void);

using namespace sim;
using namespace mpt;

enum { OP_ADD_BASIC, OP_ADD_GENERIC, OP_ADD_IFACE, OP_ADD_META, OP_LOOKUP_ID, OP_LOOKUP_NAME, OP_SWEEP, OP_FILL, OP_ALIAS };
static const char *const OPS[] = {"ADD_BASIC", "ADD_GENERIC", "ADD_IFACE", "ADD_META", "LOOKUP_ID", "LOOKUP_NAME", "SWEEP", "FILL", "ALIAS", 0};
enum { FL_NONE, FL_ALLOC };
static const char *const FAULTS[] = {"none", "allocfail", 0};

static void t_fini(void *) {}
static int t_init(void *, const void *) { return 0; }
static type_traits *g_traits_pool[64];

struct Entry { int kind; std::string name; bool named; size_t size; const type_traits *traits; };

struct RegistryWorld : World {
	const char *name() const override { return "registry"; }
	const char *const *opnames() const override { return OPS; }
	const char *const *faultnames() const override { return FAULTS; }
	const char *components_json() const override {
		return "{\"real\":[\"mpt_type_traits\",\"mpt_type_basic_add\",\"mpt_type_add\",\"mpt_type_interface_add\",\"mpt_type_metatype_add\",\"mpt_interface_traits\",\"mpt_metatype_traits\",\"mpt_named_traits\",\"mpt_alias_typeid\",\"mpt_type_int/uint\","
		       "\"(type_traits.c is compiled into the harness unit unchanged so that its static tables can be reset between runs)\"],"
		       "\"stub\":[\"allocator (ledger + n-th allocation fails)\",\"map id -> (kind, name, size, traits identity) and name -> id reference model\",\"table of C type sizes for the built-in ids\"]}";
	}
	std::string process_finding; const char *process_sig = "cxx-basic-id";
	RegistryWorld() {
		for (int i = 0; i < 64; ++i) g_traits_pool[i] = new type_traits(8 + (size_t) i, (i & 1) ? t_fini : 0, (i & 2) ? t_init : 0);
	}
	bool process_checked = false;
	// (run by the first execution of the process rather than by the constructor: a sanitizer report in here then belongs to a run, with a replay file)
	void process_checks() {
		process_checked = true;
		// once per process (the C++ layer keeps the answer in a function-local static, so no run can ask twice): the C++ "basic" metatype
		// asks for the name "basic" and must end up with an id of its own in the metatype range even when the name is already taken
		verif_registry_reset();
		const named_traits *taken = mpt_type_interface_add("basic");
		const named_traits *b = metatype::basic::pointer_traits(true);
		char msg[200] = "";
		if (taken && b) {
			if (b == taken || b->type == taken->type) snprintf(msg, sizeof msg, "the C++ basic metatype shares id %x with the interface that already owned the name 'basic'", (unsigned) b->type);
			else if (b->type < 0x100 || b->type > 0x7ff) snprintf(msg, sizeof msg, "the C++ basic metatype got id %x outside the metatype range", (unsigned) b->type);
			else if (mpt_metatype_traits(b->type) != b) snprintf(msg, sizeof msg, "id %x of the C++ basic metatype does not resolve to its own entry", (unsigned) b->type);
		}
		// the same way, once per process: lazily registered types of the plot library keep resolving (asked twice), and the C++ id of a type is
		// the id its C registration function hands out
		if (!msg[0]) {
			const named_traits *r1 = mpt_rawdata_type_traits(), *r2 = mpt_rawdata_type_traits();
			if (r1 && r2 != r1) process_sig = "lazy-registration-lost";
			if (r1 && r2 != r1) snprintf(msg, sizeof msg, "the interface 'mpt.rawdata' got id %x on first use and %s when asked again", (unsigned) r1->type, r2 ? "another entry" : "no entry at all");
		}
		if (!msg[0]) {
			int ca = mpt_axis_pointer_typeid(), ct = mpt_text_pointer_typeid(), xa = type_properties<axis *>::id(true), xt = type_properties<text *>::id(true);
			if (ca > 0 && ct > 0 && (xa != ca || xt != ct)) process_sig = "cxx-id-mismatch";
			if (ca > 0 && ct > 0 && (xa != ca || xt != ct)) snprintf(msg, sizeof msg, "the C++ ids of axis* and text* are %x and %x, their C registrations handed out %x and %x", (unsigned) xa, (unsigned) xt, (unsigned) ca, (unsigned) ct);
		}
		if (!msg[0]) {
			// the C++ accessor of the metatype pointer traits as the first user of its table, with the first allocation failing: it may answer
			// "none", it may not crash - now or at the next call (the answer is kept in a function-local static by the C++ layer, hence once per process)
			verif_registry_reset();
			const type_traits *t1, *t2;
			{ Sut s(1); t1 = type_properties<metatype *>::traits(); }
			{ Sut s; t2 = type_properties<metatype *>::traits(); }
			(void) t1;
			if (!t2 || t2->size != sizeof(void *)) { process_sig = "builtin-lost"; snprintf(msg, sizeof msg, "the C++ traits of metatype pointers do not resolve (%s) after an allocation failure during their first use", t2 ? "wrong size" : "null"); }
		}
		process_finding = msg;
		verif_registry_reset();
	}
	void gen(Rng &r, Plan &p, int tier) override {
		int nops = (int) r.range(1, tier ? 150 : 60);
		bool allocf = r.chance(1, 3);
		p.set("initwhat", r.below(5));      // which table's first use meets the failing allocation: 0 metatypes, 1 core types, 2 scalars, 3 vectors, 4 interfaces
		p.set("initfault", r.chance(1, 6) ? r.range(1, 3) : 0);     // an allocation fails while the metatype table is set up
		for (int i = 0; i < nops; ++i) {
			Op op; unsigned k = (unsigned) r.below(24);
			op.kind = k < 3 ? OP_ADD_BASIC : k < 6 ? OP_ADD_GENERIC : k < 10 ? OP_ADD_IFACE : k < 14 ? OP_ADD_META : k < 17 ? OP_LOOKUP_ID : k < 20 ? OP_LOOKUP_NAME : k < 22 ? OP_ALIAS : k == 22 ? OP_SWEEP : OP_FILL;
			if (op.kind == OP_FILL && !r.chance(1, 3)) op.kind = OP_SWEEP;
			op.a = r.below(64); op.b = r.below(40); op.c = r.below(0x1100);
			if (allocf && r.chance(1, 3)) { op.fault = FL_ALLOC; op.fa = r.range(1, 3); }
			p.ops.push_back(op);
		}
	}
	static std::string pick_name(int64_t b) {
		static const char *fixed[] = {"", "ab", "abc", "abcd", "logger", "log", "iter", "iterator", "out", "meta", "metatype", "output", "config", "solver", "mytype", "mytype2", "another_interface_name", "x_y_z_0123456789_0123456789_0123456789"};
		if (b < 18) return fixed[b];
		return "name" + std::to_string(b);
	}
	std::map<int, Entry> reg;              // model of what this run registered
	std::map<std::string, int> names;      // name -> id (built-in and registered)
	void builtin_names() {
		names.clear();
		static const struct { const char *n; int id; } core[] = {{"convertable", 0x80}, {"logger", 0x81}, {"reply", 0x82}, {"output", 0x83}, {"object", 0x84}, {"config", 0x85}, {"iterator", 0x86}, {"collection", 0x87}, {"solver", 0x88}, {"metatype", 0x100}};
		for (auto &c : core) names[c.n] = c.id;
	}
	static size_t builtin_size(int id) {
		switch (id) {
		case 'c': return sizeof(char); case 'b': return 1; case 'y': return 1; case 'n': return 2; case 'q': return 2; case 'i': return 4; case 'u': return 4; case 'x': return 8; case 't': return 8;
		case 'f': return sizeof(float); case 'd': return sizeof(double); case 'e': return sizeof(long double); case 's': return sizeof(char *);
		// every built-in id the header names (types.h, enum Types) - not only the ones the library's own size table lists
		case TypeUnixSocket: return sizeof(int);
		case TypeFilePtr: case TypeAddressPtr: case TypeReplyDataPtr: case TypeNodePtr: case TypeBufferPtr: return sizeof(void *);
		case TypeVector: return sizeof(struct iovec);
		case TypeValFmt: return sizeof(value_format); case TypeValue: return sizeof(value); case TypeProperty: return sizeof(property);
		case TypeIdentifier: return sizeof(identifier); case TypeMetaRef: return sizeof(void *); case TypeArray: return sizeof(array); case TypeCommand: return sizeof(command);
		}
		if (id >= 0x80 && id <= 0x88) return sizeof(void *);
		if (id == 0x100) return sizeof(void *);
		if (id >= 0x40 && id < 0x5a) { int sc = id - 0x40 + 0x60; if (builtin_size(sc)) return sizeof(struct iovec); }
		return 0;
	}
	void check_id(int id, const char *after) {
		const type_traits *t; { Sut s; t = mpt_type_traits((type_t) id); }
		auto it = reg.find(id);
		if (it != reg.end()) {
			const Entry &e = it->second;
			if (!t) fail("lost-type", "after %s: registered id %x no longer resolves", after, id);
			if (t->size != e.size) fail("wrong-description", "after %s: id %x reports size %zu, registered with %zu", after, id, t->size, e.size);
			if (e.traits && t != e.traits) fail("wrong-description", "after %s: id %x resolves to another traits object than the one registered", after, id);
			if (e.kind == 2 || e.kind == 3) {
				const named_traits *nt; { Sut s; nt = e.kind == 2 ? mpt_interface_traits((type_t) id) : mpt_metatype_traits((type_t) id); }
				if (!nt) fail("lost-type", "after %s: named id %x no longer resolves by id", after, id);
				if ((int) nt->type != id) fail("wrong-description", "after %s: id %x resolves to an entry carrying id %x", after, id, (int) nt->type);
				if (e.named != (nt->name != 0) || (e.named && e.name != nt->name)) fail("wrong-description", "after %s: id %x is named '%s', registered as '%s'", after, id, nt->name ? nt->name : "(none)", e.named ? e.name.c_str() : "(none)");
			}
			return;
		}
		size_t bs = builtin_size(id);
		if (bs) {
			if (!t) fail("lost-type", "after %s: built-in id %x does not resolve", after, id);
			if (t->size != bs) fail("wrong-builtin-size", "after %s: built-in id %x reports size %zu, the C type has %zu", after, id, t->size, bs);
			return;
		}
		// everything else inside the dynamic ranges must not resolve
		bool dynrange = (id >= 0x90 && id <= 0xff) || (id > 0x100 && id <= 0x7ff) || (id >= 0x900 && id <= 0xfff);
		if (dynrange && t) fail("ghost-type", "after %s: id %x resolves (size %zu) although nothing was registered there", after, id, t->size);
	}
	void check_names(const char *after) {
		for (auto &kv : names) {
			const named_traits *nt; { Sut s; nt = mpt_named_traits(kv.first.c_str(), -1); }
			if (!nt) fail("lost-name", "after %s: name '%s' no longer resolves", after, kv.first.c_str());
			if ((int) nt->type != kv.second) fail("wrong-name", "after %s: name '%s' resolves to id %x, registered as %x", after, kv.first.c_str(), (int) nt->type, kv.second);
			{ Sut s; nt = mpt_named_traits(kv.first.c_str(), (int) kv.first.size()); }
			if (!nt || (int) nt->type != kv.second) fail("wrong-name", "after %s: name '%s' with explicit length does not resolve to id %x", after, kv.first.c_str(), kv.second);
		}
	}
	void exec(const Plan &p, Log &log, Stats &st) override {
		int early_if = 0;
		if (!process_checked) process_checks();
		if (!process_finding.empty()) fail(process_sig, "%s", process_finding.c_str());
		{ Sut s; verif_registry_reset(); }
		ledger_reset();
		g.total_allocs = 0;
		// the built-in tables are created on first use; that happens here. In some runs an allocation fails during the set-up of the
		// metatype table: that call may fail, but the table must not be left half made - the next use sets it up (or fails) cleanly, and
		// no id handed out afterwards may be a built-in one
		int initwhat = (int) p.get("initwhat");
		if (p.get("initfault") && initwhat >= 1 && initwhat <= 4) {
			// the first use of one of the other built-in tables runs out of memory: the lookup may fail, it may not crash, and the next use
			// finds (or makes) a complete table
			uint64_t fn = (uint64_t) p.get("initfault"), fired; const void *r1, *r2;
			int id = initwhat == 1 ? TypeValue : initwhat == 2 ? 'i' : initwhat == 3 ? (int) MPT_type_toVector('d') : 0x80;
			{ Sut s(fn); r1 = initwhat == 4 ? (const void *) mpt_interface_traits(id) : (const void *) mpt_type_traits(id); fired = g.fired; }
			if (initwhat == 4 && (fn & 1)) { Sut s(fn); const named_traits *nt = mpt_type_interface_add(0); if (nt && (nt->type < 0x90 || nt->type > 0xbf)) fail("id-range", "an interface registered while the table set-up ran out of memory got id %x", (int) nt->type); if (nt) early_if = (int) nt->type; }
			{ Sut s; r2 = initwhat == 4 ? (const void *) mpt_interface_traits(id) : (const void *) mpt_type_traits(id); }
			log.ev("INIT table %d under allocation failure %llu -> %s, then %s", initwhat, (unsigned long long) fn, r1 ? "ok" : "null", r2 ? "ok" : "null");
			if (fired) st.hit("fault:allocfail_in_table_setup");
			if (!r2) fail("builtin-lost", "after an allocation failure during the set-up of built-in table %d, id %x does not resolve any more", initwhat, id);
		}
		{ Sut s; mpt_type_traits('c'); mpt_type_traits(0x41); mpt_type_traits(TypeValue); mpt_interface_traits(0x80); }
		const named_traits *early = 0;
		if (p.get("initfault")) {
			uint64_t fired; { Sut s((uint64_t) p.get("initfault")); early = mpt_type_metatype_add(0); fired = g.fired; }
			if (fired) st.hit("fault:allocfail_in_table_setup");
			if (early && (early->type <= 0x100 || early->type > 0x7ff)) fail("id-range", "a metatype registered while the table set-up ran out of memory got id %x, outside 0x101..0x7ff", (int) early->type);
		}
		{ Sut s; mpt_metatype_traits(0x100); }
		reg.clear(); builtin_names();
		if (early) { Entry e; e.kind = 3; e.named = false; e.size = sizeof(void *); e.traits = 0; reg[(int) early->type] = e; }
		if (early_if) { Entry e; e.kind = 2; e.named = false; e.size = sizeof(void *); e.traits = 0; reg[early_if] = e; }
		int used_traits = 0; std::set<int> seen_ids; std::vector<int> tmp_ids;
		log.ev("registry");
		auto add = [&](int kind, const std::string &nm, bool named, size_t size, uint64_t failn, bool quiet) -> int {
			// kind 0 basic, 1 generic, 2 interface, 3 metatype; returns id or -1 (refused)
			int id = -1; const type_traits *tr = 0; uint64_t fired = 0;
			if (kind == 0) { Sut s(failn); id = mpt_type_basic_add(size); fired = g.fired; }
			else if (kind == 1 && !failn && (used_traits % 3) == 1) {
				// the C++ way the library's own example registers: the description is a temporary object
				size_t sz = 1 + size; { Sut s; id = type_traits::add(type_traits(sz)); } size = sz; tr = 0;
				if (id >= 0) { tmp_ids.push_back(id); st.hit("probe:cxx_temporary_traits_registered"); }
			}
			else if (kind == 1) { tr = g_traits_pool[used_traits % 64]; Sut s(failn); id = mpt_type_add(tr); fired = g.fired; size = tr->size; }
			else {
				Block nb(nm.size() + 1, 0); memcpy(nb.p, nm.c_str(), nm.size() + 1);
				const named_traits *nt; { Sut s(failn); nt = kind == 2 ? mpt_type_interface_add(named ? (const char *) nb.p : 0) : mpt_type_metatype_add(named ? (const char *) nb.p : 0); fired = g.fired; }
				id = nt ? (int) nt->type : -1; size = sizeof(void *);
				if (nt && named && (!nt->name || nm != nt->name)) fail("wrong-description", "registration of '%s' returns an entry named '%s'", nm.c_str(), nt->name ? nt->name : "(none)");
				if (nt && !named && nt->name) fail("wrong-description", "anonymous registration returns a named entry");
			}
			if (fired) st.hit("fault:allocfail");
			if (!quiet) log.ev("%s %s%s size=%zu%s -> %x", OPS[kind], named ? nm.c_str() : "(anonymous)", "", size, fired ? " allocfail" : "", id);
			if (id < 0) {
				// duplicates, too short names and exhausted ranges must be refused; other refusals need a fault
				return -1 - (fired ? 1 : 0);
			}
			static const int lo[] = {0xc0, 0x900, 0x90, 0x101}, hi[] = {0xff, 0xfff, 0xbf, 0x7ff};
			if (id < lo[kind] || id > hi[kind]) fail("out-of-range", "%s returned id %x outside its range %x..%x", OPS[kind], id, lo[kind], hi[kind]);
			if (!seen_ids.insert(id).second || builtin_size(id)) fail("duplicate-id", "%s returned id %x which is already in use", OPS[kind], id);
			if (named && nm.size() < 4) fail("accepted-invalid", "name '%s' (shorter than 4 characters) accepted", nm.c_str());
			if (named && names.count(nm)) fail("accepted-invalid", "duplicate name '%s' accepted (already id %x)", nm.c_str(), names[nm]);
			Entry e; e.kind = kind; e.name = nm; e.named = named; e.size = kind == 0 && !size ? sizeof(void *) : size; e.traits = tr;
			reg[id] = e; if (named) names[nm] = id;
			if (kind == 1) ++used_traits;
			return id;
		};
		for (const Op &op : p.ops) {
			uint64_t failn = op.fault == FL_ALLOC ? (uint64_t) std::max<int64_t>(op.fa, 1) : 0;
			int outcome = 0;
			st.hit(std::string("op:") + OPS[op.kind]);
			switch (op.kind) {
			case OP_ADD_BASIC: case OP_ADD_GENERIC: case OP_ADD_IFACE: case OP_ADD_META: {
				int kind = op.kind - OP_ADD_BASIC;
				std::string nm = pick_name(op.b); bool named = kind >= 2 && (op.a % 5) != 0;
				static const std::map<std::string, std::string> shortforms = {{"log", "logger"}, {"iter", "iterator"}, {"out", "output"}, {"meta", "metatype"}};
				bool must_refuse = named && (nm.size() < 4 || names.count(nm) || (shortforms.count(nm) && names.count(shortforms.at(nm))));
				size_t cap_used = 0; for (auto &kv : reg) if (kv.second.kind == kind) ++cap_used;
				static const size_t caps[] = {64, 0x700, 48, 0x6ff};
				int id = add(kind, nm, named, (size_t) (op.a % 33), failn, false);
				if (must_refuse && id >= 0) fail("accepted-invalid", "registration of '%s' must be refused", nm.c_str());
				if (id == -1 && !must_refuse && cap_used < caps[kind]) fail("refused-valid", "%s refused without fault with %zu of %zu ids in use", OPS[op.kind], cap_used, caps[kind]);
				outcome = id >= 0 ? 1 : 0;
				break;
			}
			case OP_LOOKUP_ID: { check_id((int) op.c, "LOOKUP_ID"); log.ev("LOOKUP_ID %x", (int) op.c); outcome = reg.count((int) op.c) ? 1 : 0; break; }
			case OP_LOOKUP_NAME: {
				std::string nm = pick_name(op.b);
				Block nb(nm.size() + 1, 0); memcpy(nb.p, nm.c_str(), nm.size() + 1);
				const named_traits *nt; { Sut s; nt = mpt_named_traits((const char *) nb.p, -1); }
				static const std::map<std::string, std::string> alias = {{"log", "logger"}, {"iter", "iterator"}, {"out", "output"}, {"meta", "metatype"}};
				std::string full = alias.count(nm) ? alias.at(nm) : nm;
				log.ev("LOOKUP_NAME '%s' -> %x", nm.c_str(), nt ? (int) nt->type : -1);
				if (names.count(full)) { if (!nt || (int) nt->type != names[full]) fail("wrong-name", "name '%s' resolves to %x, registered as %x", nm.c_str(), nt ? (int) nt->type : -1, names[full]); outcome = 1; }
				else if (nt) fail("ghost-name", "name '%s' resolves to id %x although it was never registered", nm.c_str(), (int) nt->type);
				// length-limited lookup: a prefix of a registered name is not that name
				if (nm.size() > 4) { { Sut s; nt = mpt_named_traits((const char *) nb.p, (int) nm.size() - 1); } std::string pre = nm.substr(0, nm.size() - 1);
					if (names.count(pre) ? (!nt || (int) nt->type != names[pre]) : nt != 0) fail("wrong-name", "length-limited lookup of '%s' (%zu characters) gives %x", nm.c_str(), nm.size() - 1, nt ? (int) nt->type : -1); }
				break;
			}
			case OP_ALIAS: {
				std::string nm = pick_name(op.b); std::string desc = nm + (op.a & 1 ? " : symbol" : "");
				Block nb(desc.size() + 1, 0); memcpy(nb.p, desc.c_str(), desc.size() + 1);
				const char *end = 0; int id; { Sut s; id = mpt_alias_typeid((const char *) nb.p, &end); }
				static const std::map<std::string, std::string> alias = {{"log", "logger"}, {"iter", "iterator"}, {"out", "output"}, {"meta", "metatype"}};
				std::string full = (op.a & 1) ? nm : (alias.count(nm) ? alias.at(nm) : nm); // with an explicit length no short names apply
				log.ev("ALIAS '%s' -> %x", desc.c_str(), id);
				if (names.count(full)) { if (id != names[full]) fail("wrong-name", "type description '%s' resolves to %x, registered as %x", desc.c_str(), id, names[full]); outcome = 1; }
				else if (id >= 0) fail("ghost-name", "type description '%s' resolves to id %x although the name was never registered", desc.c_str(), id);
				break;
			}
			case OP_SWEEP: {
				for (int id = 0; id <= 0x1100; ++id) check_id(id, "SWEEP");
				check_names("SWEEP"); log.ev("SWEEP"); outcome = 1;
				// transport format codes of values: a code that stands for a built-in scalar has that type's size, and the type maps back to a code for itself
				for (int fmt = 0; fmt < 256; ++fmt) {
					int t; size_t fs; { Sut s; t = mpt_msgvalfmt_typeid((uint8_t) fmt); fs = mpt_msgvalfmt_size((uint8_t) fmt); }
					if (t <= 0) continue;
					const type_traits *tr; { Sut s; tr = mpt_type_traits((type_t) t); }
					if (!tr || tr->size != fs) fail("wrong-size", "value format code %02x stands for type '%c' and %zu bytes, the registry reports %zu bytes for that type", fmt, t, fs, tr ? tr->size : (size_t) 0);
					int back, t2 = -1; { Sut s; back = mpt_msgvalfmt_code(t); if (back >= 0) t2 = mpt_msgvalfmt_typeid((uint8_t) back); }
					if (back < 0 || t2 != t) fail("wrong-description", "value format code %02x stands for built-in type '%c', but that type has %s (%d)", fmt, t, back < 0 ? "no format code" : "a code of another type", back < 0 ? back : t2);
				}
				st.hit("probe:value_format_codes");
				break;
			}
			case OP_FILL: {
				// drive one range to its last id and beyond
				int kind = (int) (op.a % 4); int added = 0, refused = 0;
				for (int i = 0; i < 2000 && refused < 3; ++i) {
					std::string nm = "fill" + std::to_string(kind) + "_" + std::to_string(i);
					int id = add(kind, nm, kind >= 2 && (i & 1), 16, 0, true);
					if (id >= 0) { ++added; if (refused) fail("accepted-after-full", "%s accepted a registration after having reported the range exhausted", OPS[kind]); } else ++refused;
				}
				log.ev("FILL %s -> %d added, then refused", OPS[kind], added);
				if (!refused) fail("never-full", "%s never reported exhaustion after %d registrations", OPS[kind], added);
				st.hit("probe:range_exhausted");
				for (int id = 0; id <= 0x1100; ++id) check_id(id, "FILL");
				check_names("FILL"); outcome = kind + 1;
				break;
			}
			}
			st.state(1000 + op.kind, (reg.size() > 60 ? 3 : reg.size() > 10 ? 2 : reg.size() ? 1 : 0) * 4 + (op.fault ? 2 : 0), outcome);
			// a sampled subset after every op
			for (int k = 0; k < 6; ++k) { int id = (int) ((op.c * 31 + k * 977) % 0x1100); check_id(id, OPS[op.kind]); }
			for (auto it = reg.begin(); it != reg.end(); ++it) { if (((size_t) it->first + (size_t) op.c) % 7 == 0) check_id(it->first, OPS[op.kind]); }
			if (mpt_type_int(4) != 'i' || mpt_type_uint(8) != 't' || mpt_type_int(3) != 0) fail("wrong-builtin-size", "integer type codes do not match their sizes");
		}
		for (int id = 0; id <= 0x1100; ++id) check_id(id, "END");
		check_names("END");
		// descriptions registered from temporaries are kept by the registry for the life of the process (there is no unregistering): the harness,
		// which resets the registry between runs, gives those copies back itself
		std::vector<const type_traits *> kept; for (int id : tmp_ids) { Sut s; kept.push_back(mpt_type_traits((type_t) id)); }
		{ Sut s; verif_registry_reset(); }
		for (const type_traits *k : kept) if (k && ledger_is_live(k)) { Sut s; free(const_cast<type_traits *>(k)); }
		if (ledger_live()) fail("leak", "%zu block(s) still allocated after the registry was reset: %s", ledger_live(), ledger_describe().c_str());
		(void) 0;
	}
};

namespace sim { World *the_world() { static RegistryWorld w; return &w; } }
