/* The registry tables are file-static; the harness compiles the repository's
 * type_traits.c into this translation unit (which replaces the archive member)
 * to reach the static reset functions.  No source change in /repo. */
#include "type_traits.c"

void verif_registry_reset(void)
{
	_core_fini();
	_scalar_fini();
	_iovec_fini();
	_dynamic_fini();
	_meta_fini();
	_interfaces_fini();
	_generic_types_fini();
}
