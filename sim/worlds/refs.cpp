// world `refs` (C15): holders take, copy, assign and drop references on counted
// objects of every kind; harness objects count the calls they receive and may
// refuse a reference, library objects are alive iff their allocation is.
#include "worlds/common.hpp"
#include <type_traits>
#define protected public
#define private public
#include "io.h"
#include "notify.h"
#undef protected
#undef private
#include "kernel/simio.hpp"
#include <fcntl.h>
#include <poll.h>
#include <unistd.h>
#define protected public
#define private public
#include "values.h"
#include "layout.h"
#include "graphic.h"
#include "collection.h"
#include "node.h"
#undef protected
#undef private
#include <functional>

using namespace sim;
using namespace mpt;

enum { OP_COUNTER, OP_TAKE, OP_DROP, OP_WRAP_ASSIGN, OP_REFARRAY_SET, OP_REFARRAY_CLONE, OP_REFARRAY_WRITE, OP_REFARRAY_RELEASE, OP_CXXREF, OP_LIB_TAKE, OP_LIB_DROP, OP_LIB_NEW, OP_BUF_CLONE, OP_MISMATCH_CLONE, OP_CXX_REFARRAY, OP_CXX_ITEMS, OP_PLOT, OP_ADD_ITEMS, OP_NOTIFY };
static const char *const OPS[] = {"COUNTER", "TAKE", "DROP", "ASSIGN_BY_CONVERSION", "REFARRAY_SET", "REFARRAY_CLONE", "REFARRAY_WRITE", "REFARRAY_RELEASE", "CXX_REFERENCE", "LIB_TAKE", "LIB_DROP", "LIB_NEW", "BUFFER_CLONE", "MISMATCHED_CLONE", "CXX_REFERENCE_ARRAY", "CXX_ITEM_ARRAY", "PLOT_OBJECTS", "ADD_ITEMS", "NOTIFIER", 0};
enum { FL_NONE, FL_ALLOC, FL_REFUSE };
static const char *const FAULTS[] = {"none", "allocfail", "refuse_addref", 0};

struct HObj;
static std::set<HObj *> g_live;
static bool g_refuse_next = false;
static uint64_t g_refused;
struct HObj : public metatype {
	int index; long refs; long addrefs = 0, unrefs = 0;
	explicit HObj(int i) : index(i), refs(1) { g_live.insert(this); }
	int convert(type_t t, void *ptr) override { if (t == TypeMetaPtr) { if (ptr) *(metatype **) ptr = this; return 0; } return BadType; }
	void unref() override {
		Harness h;
		if (!g_live.count(this)) { pend("unref-after-destroy", "a reference was dropped on an object that is already destroyed"); return; }
		++unrefs;
		if (--refs > 0) return;
		g_live.erase(this);
	}
	uintptr_t addref() override {
		Harness h;
		if (!g_live.count(this)) { pend("addref-after-destroy", "a reference was taken on an object that is already destroyed"); return 0; }
		if (g_refuse_next) { g_refuse_next = false; ++g_refused; return 0; }
		++addrefs; return (uintptr_t) ++refs;
	}
	metatype *clone() const override { return 0; }
};
static int lib_send(void *, const reply_data *, const message *) { return 0; }

// plot data: the C++ layout / graph / world / axis / cycle classes, counted by the library's own reference<T>::type;
// the harness only observes construction and destruction
static std::set<const void *> g_plot_live;
template <typename T> static bool try_copy_obj(T &from) {
	if constexpr (std::is_copy_constructible<T>::value) { Sut s; T c(from); (void) c; return true; }
	else return false;
}
template <typename T> struct Tr : public reference<T>::type {
	Tr() { g_plot_live.insert(id()); }
	~Tr() { Harness h; g_plot_live.erase(id()); }
	const void *id() const { return static_cast<const metatype *>(this); }
	long count() const { return (long) this->_ref.value(); }
};
// an input as the notifier holds them: counted like the other harness objects, bound to a simulated descriptor
static std::set<const void *> g_input_live;
struct HInput : public input {
	int fd; long refs; int next_result;
	explicit HInput(int f) : fd(f), refs(1), next_result(1) { g_input_live.insert(this); }
	int convert(type_t t, void *ptr) override {
		if (t == (type_t) TypeUnixSocket) { if (ptr) *(int *) ptr = fd; return 0; }
		if (t == TypeMetaPtr) { if (ptr) *(metatype **) ptr = this; return 0; }
		{ static const named_traits *it = 0; if (!it) { Harness h; it = mpt_input_type_traits(); } if (it && t == (type_t) it->type) { if (ptr) *(input **) ptr = this; return (int) it->type; } }
		return BadType; }
	void unref() override { Harness h; if (!g_input_live.count(this)) { pend("unref-after-destroy", "a reference was dropped on an input that is already destroyed"); return; } if (--refs <= 0) g_input_live.erase(this); }
	uintptr_t addref() override { Harness h; if (!g_input_live.count(this)) { pend("addref-after-destroy", "a reference was taken on an input that is already destroyed"); return 0; } return (uintptr_t) ++refs; }
	metatype *clone() const override { return 0; }
	int next(int) override { Harness h; if (!g_input_live.count(this)) { pend("destroyed-early", "the notifier asked an input for work after its last reference was dropped"); return -1; } return next_result; }
	int dispatch(event_handler_t, void *) override { return 0; }
};
struct PObj { metatype *mt; const void *id; std::function<long()> count; long mine; int level; const char *what; int nr; };


struct CArr { buffer *buf; };
static inline array *AR(CArr &c) { return reinterpret_cast<array *>(&c); }

struct RefsWorld : World {
	const char *name() const override { return "refs"; }
	const char *const *opnames() const override { return OPS; }
	const char *const *faultnames() const override { return FAULTS; }
	const char *components_json() const override {
		return "{\"real\":[\"mpt_refcount_raise/lower\",\"C++ refcount wrapper\",\"mpt_data_converter(TypeMetaRef) (assignment of a held reference through conversion)\",\"mpt_meta_reference_traits in typed arrays (set, copy on detach, release)\","
		       "\"C++ reference<T> copy/assign/detach\",\"_mpt_buffer_alloc vtable addref/unref + mpt_array_clone\",\"mpt_reply_deferrable context\",\"mpt_rawdata_create (mptplot)\",\"mpt_stream_input (destruction observed as close of its simulated descriptor)\",\"C++ metatype::generic\",\"C++ plot objects: reference<T>::type of layout, layout::graph, graph::world, graph::axis, cycle; graphic::add_layout/remove_layout, item_group::append/clone, layout::bind, graph::bind/add_world/add_axis/cycle/set_cycle/clone, graphic::mapping set_cycle/set_cycles/get_cycles/clear_cycles/clear, mpt::add_items\",\"mpt_notify_add/wait/next/clear/fini (poll path) over counted inputs; mpt_input_reference_traits; reference_array over a large type; item_array compaction\"],"
		       "\"stub\":[\"harness metatype objects counting addref/unref, refusing a reference when the plan says so\",\"allocator (ledger + n-th allocation fails)\",\"holder-count reference model\"]}";
	}
	RefsWorld() {
		registry_global = true;      // types registered on first use (the plot classes register many) live as long as the process
		mpt_meta_reference_traits(); mpt_type_traits('c');
		// lazily created process-global state of the further object kinds
		mpt_input_type_traits();
		{ input *in = mpt_output_remote(); if (in) in->unref(); }
		{ io::stream::input *in = io::stream::input::create(0); if (in) { in->convert(0, 0); in->unref(); } }
		{ mpt::path pp; pp.sep = '.'; pp.assign = 0; mpt_path_set(&pp, "refs.view", -1); metatype *m = mpt_config_global(&pp); if (m) m->unref(); mpt_config_set(0, 0, 0, '.', 0); }
		{ std::string t(300, 'm'); const char *cs = t.c_str(); value v; v.set('s', &cs); metatype *m = mpt_meta_new(&v); if (m) m->unref(); }
	}
	void gen(Rng &r, Plan &p, int tier) override {
		int nops = (int) r.range(1, tier ? 100 : 50);
		bool allocf = r.chance(1, 3), refuse = r.chance(1, 2);
		p.set("inrefs", r.chance(1, 4));
		for (int i = 0; i < nops; ++i) {
			Op op; op.kind = (int) r.below(19);
			op.a = r.below(3) | (r.below(3) << 8) | (r.below(4) << 16); // object, second object, holder slot
			op.b = r.below(6); op.c = r.below(1000);
			if (refuse && r.chance(1, 4)) op.fault = FL_REFUSE;
			else if (allocf && r.chance(1, 4)) { op.fault = FL_ALLOC; op.fa = r.range(1, 3); }
			p.ops.push_back(op);
		}
	}
	void exec(const Plan &p, Log &log, Stats &st) override {
		g_live.clear(); g_refuse_next = false; g_refused = 0;
		// three harness objects; holders: 4 raw slots, one typed reference array (with a clone), 2 C++ reference<> objects
		HObj *obj[3]; long model[3];
		std::vector<HObj *> all;
		for (int i = 0; i < 3; ++i) { obj[i] = new HObj(i); all.push_back(obj[i]); model[i] = 1; }
		metatype *slot[4] = {0, 0, 0, 0};
		CArr ra, rb; ra.buf = rb.buf = 0;
		// the typed reference array holds metatype references (mpt_meta_reference_traits) or, in a quarter of the runs, input references
		// (mpt_input_reference_traits: the notifier's slots; same contract, own code)
		const type_traits *rt = p.get("inrefs") ? mpt_input_reference_traits() : mpt_meta_reference_traits();
		if (p.get("inrefs")) st.hit("probe:input_reference_traits");
		reference<HObj> *cref[2] = {new reference<HObj>(), new reference<HObj>()};
		// library objects: 0 reply context, 1 raw data, 2 generic metatype, 3 stream input; holders counted in lib_model
		// 4 text metatype (inline), 5 text metatype (300 bytes: buffer backed), 6 metatype view of an array, 7 remote output, 8 C++ io::stream input, 9 sub-tree view of the global configuration
		enum { NK = 10 };
		int acc_ch = -1; auto chan_open = [](int ch) { int n = 0; for (auto &f : simio::S.fds) if (f.open && (f.rchan == ch || f.wchan == ch)) ++n; return n; };
		metatype *lib[NK] = {0}; long lib_model[NK] = {0}; int lib_fd = -1; bool lib_counted[NK]; for (auto &b : lib_counted) b = true;
		// (kinds 4-6 and 8 are created with operator new inside the C++ layer, which the ledger sees as well)
		CArr bufh[3]; for (auto &b : bufh) b.buf = 0;                 // buffers: handles sharing one buffer
		auto idx = [&](metatype *m) -> int { for (int i = 0; i < 3; ++i) if (m == obj[i]) return i; return -1; };
		auto array_holds = [&](CArr &a, long cnt[3]) { if (!a.buf) return; metatype **e = (metatype **) (a.buf + 1); size_t n = a.buf->_used / sizeof(*e); for (size_t k = 0; k < n; ++k) { int i = idx(e[k]); if (i >= 0) ++cnt[i]; } };
		auto audit = [&](const char *after) {
			check_pending();
			long cnt[3] = {0, 0, 0};
			for (int i = 0; i < 3; ++i) if (model[i] > 0 && obj[i]) {}
			for (int k = 0; k < 4; ++k) { int i = idx(slot[k]); if (i >= 0) ++cnt[i]; }
			array_holds(ra, cnt); if (rb.buf != ra.buf) array_holds(rb, cnt);
			for (int k = 0; k < 2; ++k) { int i = idx(cref[k]->instance()); if (i >= 0) ++cnt[i]; }
			for (int i = 0; i < 3; ++i) {
				long holders = cnt[i] + (model[i] < 0 ? 0 : 0);
				bool alive = g_live.count(all[(size_t) i]) != 0;
				long creator = model[i]; // 1 while the creator's own reference exists
				long want = holders + creator;
				if (alive && obj[i]->refs != want) fail("count-mismatch", "after %s: object %d counts %ld references, %ld holders exist (addref %ld, unref %ld)", after, i, obj[i]->refs, want, obj[i]->addrefs, obj[i]->unrefs);
				if (!alive && want > 0) fail("destroyed-early", "after %s: object %d was destroyed while %ld holders still reference it", after, i, want);
				if (alive && want == 0) fail("never-destroyed", "after %s: object %d has no holder left but is still alive (count %ld)", after, i, obj[i]->refs);
			}
			for (int k = 0; k < NK; ++k) if (lib[k] && lib_counted[k]) {
				if (lib_model[k] > 0 && !ledger_covers(lib[k])) fail("destroyed-early", "after %s: library object kind %d was freed with %ld holders", after, k, lib_model[k]);
			}
		};
		log.ev("refs");
		for (const Op &op : p.ops) {
			int a = (int) (op.a & 0xff) % 3, b = (int) ((op.a >> 8) & 0xff) % 3, s = (int) ((op.a >> 16) & 0xff) % 4;
			uint64_t failn = op.fault == FL_ALLOC ? (uint64_t) std::max<int64_t>(op.fa, 1) : 0;
			bool refuse = op.fault == FL_REFUSE; int outcome = 0;
			st.hit(std::string("op:") + OPS[op.kind]);
			auto alive = [&](int i) { return g_live.count(all[(size_t) i]) != 0; };
			switch (op.kind) {
			case OP_COUNTER: {
				static const uintptr_t vals[] = {0, 1, 2, UINTPTR_MAX - 1, UINTPTR_MAX, 77};
				refcount rc(vals[op.b % 6]); uintptr_t v0 = rc.value();
				uintptr_t r; { Sut su; r = (op.c & 1) ? rc.raise() : mpt_refcount_raise(&rc); }
				log.ev("COUNTER raise at %lx -> %lx (now %lx)", (unsigned long) v0, (unsigned long) r, (unsigned long) rc.value());
				if (v0 == 0 || v0 == UINTPTR_MAX) { if (r || rc.value() != v0) fail("counter-wrap", "raise at %lx reports %lx and leaves %lx (must refuse and keep the value)", (unsigned long) v0, (unsigned long) r, (unsigned long) rc.value()); }
				else if (r != v0 + 1 || rc.value() != v0 + 1) fail("counter-wrong", "raise at %lx gives %lx", (unsigned long) v0, (unsigned long) r);
				refcount rl(vals[op.b % 6]); uintptr_t l0 = rl.value();
				uintptr_t l; { Sut su; l = (op.c & 2) ? rl.lower() : mpt_refcount_lower(&rl); }
				if (l0 == 0) { if (rl.value() != 0) fail("counter-wrap", "lower at 0 leaves %lx", (unsigned long) rl.value()); }
				else if (l != l0 - 1 || rl.value() != l0 - 1) fail("counter-wrong", "lower at %lx gives %lx", (unsigned long) l0, (unsigned long) l);
				if (op.c & 4) {
					// a counted object of the library's own kind (reference<T>::type) is copied while it has several holders: the copy is a new
					// object with the one holder who made it, and assigning content to an object does not change how many hold it
					typedef reference<io::queue>::type CQ;
					CQ *src; { Sut su; src = new CQ; } int extra = 1 + (int) (op.c >> 3) % 3; for (int k = 0; k < extra; ++k) { Sut su; src->addref(); }
					size_t led1 = ledger_live();
					CQ *dup; { Sut su; dup = new CQ(*src); }
					{ Sut su; dup->unref(); }
					if (ledger_live() > led1) fail("never-destroyed", "a copy of a counted object with %d holders is still allocated after its only holder let go", extra + 1);
					CQ *dst; { Sut su; dst = new CQ; dst->addref(); }      // two holders
					{ Sut su; *dst = *src; }
					{ Sut su; dst->unref(); }                                   // one of the two lets go: the object stays (ASan sees the next access otherwise)
					{ Sut su; dst->push("x", 1); dst->unref(); }
					for (int k = 0; k <= extra; ++k) { Sut su; src->unref(); }
					if (ledger_live() > led1 - 1 && ledger_live() != led1 - 1) { /* src allocated before led1 */ }
					st.hit("probe:counted_object_copied");
				}
				outcome = r ? 1 : 0;
				break;
			}
			case OP_TAKE: {
				if (!alive(a) || slot[s]) break;
				g_refuse_next = refuse;
				uintptr_t r; { Sut su; r = obj[a]->addref(); }
				g_refuse_next = false;
				log.ev("TAKE object %d into slot %d%s -> %lu", a, s, refuse ? " (refused)" : "", (unsigned long) r);
				if (r) slot[s] = obj[a];
				outcome = r ? 1 : 0;
				break;
			}
			case OP_DROP: {
				if (op.c % 7 == 0 && model[a] == 1 && alive(a)) { // the creator drops its own reference
					{ Sut su; obj[a]->unref(); } model[a] = 0; log.ev("DROP creator reference of object %d", a); outcome = 2; break;
				}
				if (!slot[s]) break;
				metatype *m = slot[s]; slot[s] = 0;
				{ Sut su; m->unref(); }
				log.ev("DROP slot %d (object %d)", s, idx(m)); outcome = 1;
				break;
			}
			case OP_WRAP_ASSIGN: {
				// generic assignment: slot[s] := object a, through the metatype-reference converter
				metatype *src = (op.c % 5 == 0) ? 0 : (alive(a) && model[a] == 1 ? obj[a] : 0); // the assigning party holds a reference of its own
				metatype *old = slot[s];
				data_converter_t conv = mpt_data_converter(TypeMetaRef);
				if (!conv) fail("setup", "no converter for metatype references");
				g_refuse_next = refuse && src;
				int rc; { Sut su; rc = conv(&src, TypeMetaRef, &slot[s]); }
				g_refuse_next = false;
				log.ev("ASSIGN_BY_CONVERSION slot %d (object %d) := object %d%s -> %d", s, idx(old), idx(src), refuse && src ? " (refused)" : "", rc);
				if (rc < 0) { if (slot[s] != old) fail("assign-partial", "refused assignment changed the held reference"); outcome = 0; }
				else { if (slot[s] != src) fail("assign-wrong", "assignment through conversion did not store the new referent"); outcome = 1; }
				break;
			}
			case OP_REFARRAY_SET: {
				// typed array of metatype references: element k := object a (copy construction takes a reference)
				metatype *src = alive(a) && model[a] == 1 ? obj[a] : 0;
				long k = (long) (op.c % 4);
				g_refuse_next = refuse && src;
				void *r; uint64_t fired; { Sut su(failn); r = mpt_array_set(AR(ra), rt, sizeof(src), &src, k); fired = g.fired; }
				g_refuse_next = false;
				if (fired) st.hit("fault:allocfail");
				log.ev("REFARRAY_SET [%ld] := object %d%s%s -> %s", k, idx(src), fired ? " allocfail" : "", refuse && src ? " (refused)" : "", r ? "ok" : "null");
				outcome = r ? 1 : 0;
				break;
			}
			case OP_REFARRAY_CLONE: {
				int rc; { Sut su; rc = mpt_array_clone(AR(rb), AR(ra)); }
				log.ev("REFARRAY_CLONE -> %d", rc); outcome = rc >= 0;
				break;
			}
			case OP_REFARRAY_WRITE: {
				// writing through the second handle of a shared array copies every reference
				if (!rb.buf) break;
				metatype *src = alive(b) && model[b] == 1 ? obj[b] : 0;
				g_refuse_next = refuse;
				void *r; uint64_t fired; { Sut su(failn); r = mpt_array_set(AR(rb), rt, sizeof(src), &src, 0); fired = g.fired; }
				g_refuse_next = false;
				if (fired) st.hit("fault:allocfail");
				log.ev("REFARRAY_WRITE second handle [0] := object %d%s%s -> %s", idx(src), fired ? " allocfail" : "", refuse ? " (refused)" : "", r ? "ok" : "null");
				outcome = r ? 1 : 0;
				break;
			}
			case OP_REFARRAY_RELEASE: {
				CArr &h = (op.c & 1) ? ra : rb;
				{ Sut su; mpt_array_clone(AR(h), 0); }
				log.ev("REFARRAY_RELEASE %s", (op.c & 1) ? "first" : "second"); outcome = 1;
				break;
			}
			case OP_CXXREF: {
				int k = (int) (op.c % 2), v = (int) (op.b % 4);
				g_refuse_next = refuse;
				if (v == 0 && alive(a)) { reference<HObj> tmp; { Sut su; if (obj[a]->addref()) tmp.set_instance(obj[a]); *cref[k] = tmp; } log.ev("CXX_REFERENCE r%d = object %d (copy assign)", k, a); }
				else if (v == 1) { { Sut su; *cref[k] = *cref[1 - k]; } log.ev("CXX_REFERENCE r%d = r%d", k, 1 - k); }
				else if (v == 2) { HObj *d = cref[k]->detach(); if (d) { Sut su; d->unref(); } log.ev("CXX_REFERENCE r%d detach + drop", k); }
				else { { Sut su; cref[k]->set_instance(0); } log.ev("CXX_REFERENCE r%d cleared", k); }
				g_refuse_next = false; outcome = v;
				break;
			}
			case OP_LIB_NEW: {
				int k = (int) ((op.b + op.c) % NK);
				if (lib[k]) break;
				uint64_t fired = 0;
				if (k == 0) { Sut su(failn); lib[k] = mpt_reply_deferrable(4, lib_send, 0); fired = g.fired; }
				else if (k == 1) { Sut su(failn); lib[k] = mpt_rawdata_create((op.c & 64) ? 3 : -1); fired = g.fired; }      // with or without a limit of three stages
				else if (k == 2) { int v = 42; Sut su(failn); lib[k] = metatype::generic::create('i', &v); fired = g.fired; }
				else if (k == 4 || k == 5) { std::string t(k == 4 ? 5 : 300, 'm'); const char *cs = t.c_str(); value v; v.set('s', &cs); Sut su(failn); lib[k] = mpt_meta_new(&v); fired = g.fired; }
				else if (k == 6 && (op.c & 128)) {
					// the buffer's counter stands at its maximum (as if that many handles existed): a further holder cannot be counted, so creating an
					// iterator on it - which means taking a reference - has to fail; an object that claims success without the content hides the refusal
					CArr a = {0}; { Sut su; mpt_array_append(AR(a), 12, "hello world"); }
					uintptr_t *cnt = reinterpret_cast<uintptr_t *>(reinterpret_cast<char *>(a.buf) + sizeof(buffer) - 8 * sizeof(void *));
					if (*cnt != 1) fail("setup", "the counter of a fresh buffer is not where the harness expects it (reads %lx)", (unsigned long) *cnt);
					*cnt = UINTPTR_MAX;
					bool cimpl = sim::c_impl;      // the C implementation or the C++ one that overrides it (chosen per run, sim/kernel/cimpl_*.c)
					metatype *m; { Sut su; m = mpt_meta_buffer(AR(a)); }
					uintptr_t after = *cnt; *cnt = 1;
					log.ev("LIB_NEW kind 6 on a buffer whose counter is at its maximum -> %s (counter %lx)", m ? "object" : "null", (unsigned long) after);
					st.hit("probe:iterator_on_saturated_buffer");
					if (after != UINTPTR_MAX) fail("counter-wrap", "a buffer counter at its maximum reads %lx after an iterator was created on the buffer", (unsigned long) after);
					if (m) { struct iovec vec = {0, 0}; int rc; { Sut su; rc = m->convert(MPT_type_toVector('c'), &vec); } size_t got = rc >= 0 ? vec.iov_len : 0; { Sut su; m->unref(); } { Sut su; mpt_array_clone(AR(a), 0); }
						fail("refusal-hidden", "an iterator created (%s implementation) on a buffer that cannot take another reference reports success and holds %zu of the 12 bytes", cimpl ? "C" : "C++", got); }
					{ Sut su; mpt_array_clone(AR(a), 0); }
					break;
				}
				else if (k == 6) { CArr a = {0}; { Sut su; mpt_array_append(AR(a), 12, "hello world"); } { Sut su(failn); lib[k] = mpt_meta_buffer(AR(a)); fired = g.fired; } { Sut su; mpt_array_clone(AR(a), 0); } }
				else if (k == 7) { input *in; { Sut su(failn); in = mpt_output_remote(); fired = g.fired; } lib[k] = in ? static_cast<metatype *>(in) : 0; }
				else if (k == 8 && (op.c & 512)) {
					// the way io::socket::accept() makes its input: the descriptor is put into a local streaminfo, the input is created from
					// it, the streaminfo goes away. The input needs a descriptor of its own for as long as anybody holds it
					acc_ch = simio::new_chan(64); int fd = simio::new_fd(acc_ch, acc_ch, O_RDWR | O_NONBLOCK);
					io::stream::input *in;
					{ streaminfo info; { Sut su; _mpt_stream_setfile(&info, fd, fd); info.set_flags(stream::Buffer); } { Sut su(failn); in = io::stream::input::create(&info); fired = g.fired; } }
					lib[k] = in ? static_cast<metatype *>(in) : 0;
					if (!in) acc_ch = -1; else st.hit("probe:input_from_streaminfo");
					if (in && (op.c & 256)) { bool c = try_copy_obj(*static_cast<io::stream *>(in)); st.hit(c ? "probe:cxx_io_stream_copied" : "probe:cxx_io_stream_not_copyable"); }
					if (in && !chan_open(acc_ch)) fail("destroyed-early", "a stream input created from a streaminfo has no open descriptor left once the streaminfo is gone (1 holder)");
				}
				else if (k == 8) { io::stream::input *in; { Sut su(failn); in = io::stream::input::create(0); fired = g.fired; } lib[k] = in ? static_cast<metatype *>(in) : 0; acc_ch = -1;
					// (where an io::stream can be copied at all, the copy and its going away leave the original with its stream)
					if (in && (op.c & 256)) { bool c = try_copy_obj(*static_cast<io::stream *>(in)); st.hit(c ? "probe:cxx_io_stream_copied" : "probe:cxx_io_stream_not_copyable"); } }
				else if (k == 9) { mpt::path pp; pp.sep = '.'; pp.assign = 0; { Sut su; mpt_path_set(&pp, "refs.view", -1); } { Sut su(failn); lib[k] = mpt_config_global(&pp); fired = g.fired; } }
				else {
					int ch = simio::new_chan(64); lib_fd = simio::new_fd(ch, ch, O_RDWR | O_NONBLOCK);
					socket sk; sk._id = lib_fd;
					input *in; { Sut su(failn); in = mpt_stream_input(&sk, stream::RdWr | stream::Buffer, EncodingCobs, 2); fired = g.fired; }
					sk._id = -1;
					lib[k] = in ? static_cast<metatype *>(in) : 0;
					// a failed creation leaves the descriptor with the caller (who closes it, as every caller in the library does): it may not have been closed already
					if (!lib[k]) { if (simio::get(lib_fd)->closes) fail("released-twice", "mpt_stream_input failed%s and had closed the caller's descriptor, which the caller still owns", fired ? " (allocation failure)" : ""); Sut su; close(lib_fd); }
				}
				if (fired) st.hit("fault:allocfail");
				lib_model[k] = lib[k] ? 1 : 0;
				log.ev("LIB_NEW kind %d%s -> %s", k, fired ? " allocfail" : "", lib[k] ? "ok" : "null");
				if (getenv("VERIF_TRACE_Q")) log.ev("    ledger: %s; object at %p covered=%d", ledger_describe().c_str(), (void *) lib[k], (int) ledger_covers(lib[k]));
				outcome = lib[k] ? 1 : 0;
				break;
			}
			case OP_LIB_TAKE: {
				int k = (int) ((op.b + op.c) % NK);
				if (!lib[k] || lib_model[k] > 3) break;
				uintptr_t r; { Sut su; r = lib[k]->addref(); }
				log.ev("LIB_TAKE kind %d -> %lu", k, (unsigned long) r);
				if (r) ++lib_model[k];
				if (r && k == 1 && ((op.c / NK) & 1)) {
					// the holder uses the plot data: values into some dimension of some stage, a new stage; everything the object comes to own must go with it
					// (the interface sits right behind the metatype part of the object; it cannot be had by conversion: mpt_rawdata_type_traits()
					// lacks a `static` and tries to register "mpt.rawdata" again on every call, which the registry refuses - DESIGN.md section 9, observations)
					rawdata *rd = reinterpret_cast<rawdata *>(reinterpret_cast<void **>(lib[1]) + 1);
					{
						uint32_t y = (uint32_t) (op.c / (2 * NK)) * 2654435761u;
						double vals[6] = {1, 2, 3, 4, 5, 6}; struct iovec vec; vec.iov_base = vals; vec.iov_len = sizeof(double) * (1 + (y >> 4) % 6);
						value v; v.set(MPT_type_toVector('d'), &vec);
						valdest vd; vd.cycle = (y >> 8) % 3; vd.offset = (y >> 12) % 4;
						int rc; bool fired; { Sut su(failn); rc = rd->modify((y >> 16) % 3, v, &vd); fired = g.fired; }
						long st0 = rd->stage_count();
						int adv = -1; if (y & 0x100000) { Sut su(failn); adv = rd->advance(); fired = fired || g.fired; }
						long st1 = rd->stage_count(); if (st1 > st0 + 1 || st1 < st0) fail("wrong-content", "raw data: advance changed the number of stages from %ld to %ld", st0, st1);
						log.ev("    raw data: modify -> %d, advance -> %d%s", rc, adv, fired ? " (allocation failed)" : "");
						if (rc >= 0) st.hit("probe:rawdata_filled"); if (fired) st.hit("fault:allocfail");
					}
				}
				outcome = r ? 1 : 0;
				break;
			}
			case OP_LIB_DROP: {
				int k = (int) ((op.b + op.c) % NK);
				if (!lib[k]) break;
				const void *base = lib[k];
				int closes_before = k == 3 && simio::get(lib_fd) ? simio::get(lib_fd)->closes : 0;
				{ Sut su; lib[k]->unref(); }
				--lib_model[k];
				bool freed = lib_counted[k] ? !ledger_covers(base) : lib_model[k] == 0;     // uncounted kinds: taken on trust here, watched by AddressSanitizer and the final ledger check of what they own
				log.ev("LIB_DROP kind %d -> holders %ld, %s", k, lib_model[k], freed ? "destroyed" : "alive");
				if (lib_model[k] > 0 && freed) fail("destroyed-early", "library object kind %d destroyed with %ld holders left", k, lib_model[k]);
				if (lib_model[k] == 0 && !freed) fail("never-destroyed", "library object kind %d still allocated after its last reference was dropped", k);
				if (k == 3) { int c = simio::get(lib_fd)->closes - closes_before; if ((lib_model[k] == 0) != (c >= 1)) fail(lib_model[k] ? "destroyed-early" : "never-destroyed", "stream input: descriptor closed %d time(s) with %ld holders left", c, lib_model[k]); if (c > 1) { st.hit("probe:descriptor_closed_twice"); fail("released-twice", "stream input: its descriptor was closed %d times when the last holder let go", c); } }
				if (k == 8 && acc_ch >= 0) {
					int open = chan_open(acc_ch);
					if (lib_model[k] > 0 && !open) fail("destroyed-early", "stream input from a streaminfo: no open descriptor with %ld holders left", lib_model[k]);
					if (lib_model[k] == 0 && open) fail("never-destroyed", "stream input from a streaminfo: %d descriptor(s) still open after the last holder let go", open);
					for (auto &f : simio::S.fds) if ((f.rchan == acc_ch || f.wchan == acc_ch) && f.closes > 1) fail("released-twice", "stream input from a streaminfo: a descriptor was closed %d times", f.closes);
					if (lib_model[k] == 0) acc_ch = -1;
				}
				if (lib_model[k] == 0) lib[k] = 0;
				outcome = freed ? 2 : 1;
				break;
			}
			case OP_MISMATCH_CLONE: {
				// assignment between arrays of different content types must be refused and must not touch any count
				int h = (int) (op.c % 3);
				if (!ra.buf || !bufh[h].buf) break;
				bool dir = (op.b & 1) != 0;
				int rc; { Sut su; rc = dir ? mpt_array_clone(AR(ra), AR(bufh[h])) : mpt_array_clone(AR(bufh[h]), AR(ra)); }
				log.ev("MISMATCHED_CLONE %s -> %d", dir ? "reference array := raw buffer" : "raw buffer := reference array", rc);
				if (rc >= 0) fail("assign-wrong", "assignment between arrays of different content types accepted");
				// the buffers' own counts: a refused assignment leaves no extra reference behind
				{ long holders = 0; for (auto &x : bufh) if (x.buf == bufh[h].buf) ++holders;
				  bool shared_flag = (bufh[h].buf->get_flags() & BufferShared) != 0;
				  if (shared_flag != (holders > 1)) fail("count-mismatch", "raw buffer with %ld holder(s) reports shared=%d after a refused assignment", holders, (int) shared_flag); }
				{ long holders = (ra.buf == rb.buf) ? 2 : 1; bool shared_flag = (ra.buf->get_flags() & BufferShared) != 0;
				  if (shared_flag != (holders > 1)) fail("count-mismatch", "reference array buffer with %ld holder(s) reports shared=%d after a refused assignment", holders, (int) shared_flag); }
				outcome = 1;
				break;
			}
			case OP_CXX_REFARRAY: case OP_CXX_ITEMS: {
				// episode on a C++ array of references (reference_array) or of named references (item_array):
				// the container owns one reference per non-empty entry and gives each back exactly once
				long before[3]; for (int i = 0; i < 3; ++i) before[i] = alive(i) ? obj[i]->refs : -1;
				uint32_t x = (uint32_t) op.c * 2654435761u + 99u;
				bool items = op.kind == OP_CXX_ITEMS;
				{
					reference_array<metatype> *ra2 = 0; item_array<metatype> *ia = 0;
					if (items) { Sut su; ia = new item_array<metatype>(); } else { Sut su; ra2 = new reference_array<metatype>(); }
					long held[3] = {0, 0, 0};
					std::vector<std::pair<int, std::string> > inames;      // item_array: object and name of every entry, in order (object -1: emptied)
					const int steps = (op.c & 4) ? 16 : 10;      // the longer episodes push a reference_array beyond its first allocation chunk
					for (int k = 0; k < steps; ++k) {
						x = x * 1664525u + 1013904223u;
						int o = (int) ((x >> 20) % 3); unsigned act = (x >> 12) % 6;
						if (!alive(o) || model[o] != 1) continue;
						if (act <= 2) {
							// hand one reference to the container
							uintptr_t r; { Sut su; r = obj[o]->addref(); }
							if (!r) continue;
							bool ok;
							if (items) {
								// names: none, short (inline), 40 characters (allocated, optionally with the allocation failing), 70000 characters (refused)
								static const std::string longname(70000, 'n'); char nm[48]; snprintf(nm, sizeof nm, "n%d", k);
								unsigned nk = (x >> 8) & 7; const char *name = nk < 2 ? 0 : nk < 5 ? nm : nk < 7 ? "a-name-of-forty-characters-for-this-item" : longname.c_str();
								uint64_t fn = (nk == 6 || (x & 0x4000)) ? 1 + ((x >> 16) & 1) : 0; bool fired;
								// the name may be the one of an entry already in the array (the pointer handed in lies inside the array's buffer for inline names)
								std::string ownname; bool own = false;
								if ((x & 0x30000) == 0x10000 && ia->length() > 0 && nk != 7) { long j = (long) ((x >> 18) % (uint32_t) ia->length()); const char *cur; { Sut su; cur = ia->begin()[j].name(); }
									if (cur) { ownname = cur; name = cur; own = true; st.hit("probe:item_named_after_own_entry"); } }
								{ Sut su(fn); ok = ia->append(obj[o], name) != 0; fired = g.fired; }
								if (own) name = ownname.c_str();
								if (ok) { const char *got; { Sut su; got = ia->begin()[ia->length() - 1].name(); }
									if (std::string(got ? got : "") != std::string(name ? name : "")) fail("wrong-name", "item_array entry appended with a name of %zu characters%s reads a name of %zu characters", name ? strlen(name) : (size_t) 0, own ? " (taken from one of its own entries)" : "", got ? strlen(got) : (size_t) 0); }
								if (ok) inames.push_back(std::make_pair(o, std::string(name ? name : "")));
								if (nk == 7) { st.hit("probe:item_name_refused"); if (ok) fail("accepted-invalid", "item_array accepted a name of 70000 characters"); }
								if (fired) st.hit("fault:allocfail");
								if (!ok && !fired && nk != 7) fail("refused-valid", "item_array append refused without allocation fault");
							}
							else { long n = ra2->length(); Sut su; ok = ra2->insert((long) (x % (uint32_t) (n + 1)), obj[o]); }
							if (ok) { ++held[o]; st.hit(items ? "probe:item_array_entry_added" : "probe:reference_array_entry_added"); } else { Sut su; obj[o]->unref(); }
						} else if (act == 3 && !items) {
							long n; { Sut su; n = ra2->clear(obj[o]); }
							if (n != held[o]) fail("count-mismatch", "reference_array clear(object %d) released %ld entries, %ld were held", o, n, held[o]);
							held[o] = 0;
						} else if (act == 4) {
							long c; { Sut su; c = items ? ia->count() : ra2->count(); }
							if (c != held[0] + held[1] + held[2]) fail("count-mismatch", "%s count() is %ld, %ld references are held", items ? "item_array" : "reference_array", c, held[0] + held[1] + held[2]);
						} else if (items && act == 3 && !inames.empty()) {
							// an entry is emptied the way item_group::clear(ref) does it
							size_t k2 = (x >> 9) % inames.size();
							if (inames[k2].first >= 0) { { Sut su; ia->begin()[k2].set_instance(0); } --held[inames[k2].first]; inames[k2].first = -1; st.hit("probe:item_array_entry_emptied"); }
						} else {
							if (items) {
								// compaction moves the kept entries forward: each keeps its own name, also when an allocation fails on the way
								uint64_t fn2 = (x & 0x8000) ? 1 : 0; bool fired2; { Sut su(fn2); ia->compact(); fired2 = g.fired; }
								if (fired2) st.hit("fault:allocfail");
								std::vector<std::pair<int, std::string> > kept; for (auto &e : inames) if (e.first >= 0) kept.push_back(e);
								long n = ia->length(); size_t ki = 0;
								for (long q = 0; q < n; ++q) { item<metatype> &it = ia->begin()[q]; if (!it.instance()) continue;
									if (ki >= kept.size()) fail("count-mismatch", "item_array holds more entries after compact than were kept");
									const char *nm; { Sut su; nm = it.name(); }
									if (idx(it.instance()) != kept[ki].first) fail("wrong-entry", "item_array entry %ld refers to another object after compact", q);
									if (std::string(nm ? nm : "") != kept[ki].second) fail("wrong-name", "after compact%s the entry of object %d is named '%.20s' (%zu characters), it was added as '%.20s' (%zu characters)", fired2 ? " with an allocation failure" : "", kept[ki].first, nm ? nm : "", nm ? strlen(nm) : (size_t) 0, kept[ki].second.c_str(), kept[ki].second.size());
									++ki; }
								if (ki != kept.size()) fail("count-mismatch", "item_array lost %zu of %zu kept entries in compact", kept.size() - ki, kept.size());
								if (n == (long) kept.size()) inames = kept;
							} else { Sut su; ra2->compact(); }
						}
						for (int i = 0; i < 3; ++i) if (before[i] >= 0 && alive(i) && obj[i]->refs != before[i] + held[i])
							fail("count-mismatch", "object %d counts %ld references, %ld expected while a C++ %s holds %ld", i, obj[i]->refs, before[i] + held[i], items ? "item_array" : "reference_array", held[i]);
						check_pending();
					}
					if (!items && (op.c & 8)) {
						// a second handle on the same entries: such a buffer must never be copied byte-wise (each entry owns a reference),
						// so changing it through one handle while the other exists is refused, and nothing changes
						reference_array<metatype> *cp; { Sut su; cp = new reference_array<metatype>(*ra2); }
						long n0 = ra2->length(); int o = 0; while (o < 3 && (!alive(o) || model[o] != 1)) ++o;
						if (o < 3 && n0 > 0) {
							uintptr_t r; { Sut su; r = obj[o]->addref(); }
							if (r) {
								std::vector<metatype *> ents; for (long q = 0; q < n0; ++q) ents.push_back(ra2->begin()[q].instance());
								unsigned var = (unsigned) (op.c >> 5) % 4; bool ok = false; long cl = 0;
								if (var == 0) { Sut su; ok = cp->insert(0, obj[o]); }
								else if (var == 1) { Sut su; ok = cp->set(0, obj[o]); }
								else if (var == 2) { Sut su; cl = cp->clear(); }
								else { Sut su; cp->compact(); }
								log.ev("    %s through a second handle on %ld shared entries -> %d", var == 0 ? "insert" : var == 1 ? "set" : var == 2 ? "clear" : "compact", n0, var == 2 ? (int) cl : (int) ok); st.hit("probe:reference_array_shared_insert");
								// the first handle reads what it held: the same entries in the same places
								if (ra2->length() != n0) fail("other-handle-changed", "a reference_array of %ld entries has %ld after %s through a copy of it", n0, ra2->length(), var == 0 ? "insert" : var == 1 ? "set" : var == 2 ? "clear" : "compact");
								for (long q = 0; q < n0; ++q) if (ra2->begin()[q].instance() != ents[(size_t) q]) fail("other-handle-changed", "entry %ld of a reference_array changed after %s through a copy of it", q, var == 1 ? "set" : var == 2 ? "clear" : var == 3 ? "compact" : "insert");
								if (ok) ++held[o]; else { Sut su; obj[o]->unref(); }
								if (ok) { Sut su; delete cp; cp = 0; --held[o]; }     // an accepted change went to a private copy: it goes away with the second handle
								for (int i = 0; i < 3; ++i) if (before[i] >= 0 && alive(i) && obj[i]->refs != before[i] + held[i])
									fail("count-mismatch", "object %d counts %ld references, %ld expected after an insert through a second handle of a reference_array (%s)", i, obj[i]->refs, before[i] + held[i], ok ? "accepted" : "refused");
							}
						}
						if (cp) { Sut su; delete cp; }
						for (int i = 0; i < 3; ++i) if (before[i] >= 0 && alive(i) && obj[i]->refs != before[i] + held[i])
							fail("count-mismatch", "object %d counts %ld references, %ld expected after the second handle of a reference_array went away", i, obj[i]->refs, before[i] + held[i]);
						check_pending();
					}
					if (items && (op.c & 8) && ia->length() > 0) {
						// the same for named entries: compaction through a copy of the array leaves the first handle's entries where they are
						long n0 = ia->length(); std::vector<std::pair<metatype *, std::string> > ents;
						for (long q = 0; q < n0; ++q) { const char *nm; { Sut su; nm = ia->begin()[q].name(); } ents.push_back(std::make_pair(ia->begin()[q].instance(), std::string(nm ? nm : ""))); }
						item_array<metatype> *cp; { Sut su; cp = new item_array<metatype>(*ia); }
						{ Sut su; cp->compact(); }
						st.hit("probe:item_array_shared_compact");
						if (ia->length() != n0) fail("other-handle-changed", "an item_array of %ld entries has %ld after compact through a copy of it", n0, ia->length());
						for (long q = 0; q < n0; ++q) { const char *nm; { Sut su; nm = ia->begin()[q].name(); }
							if (ia->begin()[q].instance() != ents[(size_t) q].first || std::string(nm ? nm : "") != ents[(size_t) q].second) fail("other-handle-changed", "entry %ld of an item_array changed after compact through a copy of it", q); }
						{ Sut su; delete cp; }
						for (int i = 0; i < 3; ++i) if (before[i] >= 0 && alive(i) && obj[i]->refs != before[i] + held[i])
							fail("count-mismatch", "object %d counts %ld references, %ld expected after the second handle of an item_array went away", i, obj[i]->refs, before[i] + held[i]);
					}
					if (items) { Sut su; delete ia; } else { Sut su; delete ra2; }
				}
				check_pending();
				for (int i = 0; i < 3; ++i) if (before[i] >= 0 && (!alive(i) || obj[i]->refs != before[i]))
					fail(alive(i) && obj[i]->refs > before[i] ? "never-destroyed" : "destroyed-early", "after a C++ %s went away object %d counts %ld references, %ld before the episode", items ? "item_array" : "reference_array", i, alive(i) ? obj[i]->refs : 0, before[i]);
				if (!items && (op.c & 16)) {
					// the same container over a referenced type that is larger than a pointer (the entries are pointers all the same)
					reference_array<HObj> *rb; { Sut su; rb = new reference_array<HObj>(); }
					long heldb[3] = {0, 0, 0}; uint32_t y = x;
					for (int k = 0; k < 6; ++k) {
						y = y * 1664525u + 1013904223u; int o = (int) ((y >> 20) % 3);
						if (!alive(o) || model[o] != 1) continue;
						uintptr_t r; { Sut su; r = obj[o]->addref(); } if (!r) continue;
						long n = rb->length(); bool ok;
						if ((y & 0x100) && n) { long pos = (long) ((y >> 9) % (uint32_t) n); HObj *old = rb->begin()[pos].instance(); { Sut su; ok = rb->set(pos, obj[o]); } if (ok && old) { int oi = idx(old); if (oi >= 0) --heldb[oi]; } }
						else { Sut su; ok = rb->insert(n, obj[o]); }
						if (!ok) fail("refused-valid", "reference_array over a %zu byte type refused entry %ld without allocation fault", sizeof(HObj), n);
						++heldb[o];
						for (int i = 0; i < 3; ++i) if (before[i] >= 0 && alive(i) && obj[i]->refs != before[i] + heldb[i])
							fail("count-mismatch", "object %d counts %ld references, %ld expected while a reference_array over a %zu byte type holds %ld", i, obj[i]->refs, before[i] + heldb[i], sizeof(HObj), heldb[i]);
						check_pending();
					}
					{ Sut su; delete rb; }
					check_pending();
					for (int i = 0; i < 3; ++i) if (before[i] >= 0 && (!alive(i) || obj[i]->refs != before[i]))
						fail(alive(i) && obj[i]->refs > before[i] ? "never-destroyed" : "destroyed-early", "after a reference_array over a %zu byte type went away object %d counts %ld references, %ld before", sizeof(HObj), i, alive(i) ? obj[i]->refs : 0, before[i]);
					st.hit("probe:reference_array_of_large_type");
				}
				log.ev("%s episode", OPS[op.kind]);
				outcome = 1;
				break;
			}
			case OP_PLOT: {
				// episode on the plot objects: layouts registered with a graphic, graphs as items of layouts, worlds and axes as items of
				// graphs, cycles (the plot data) held by world entries of graphs and by a cycle mapping.  Every library holder owns one
				// reference; the harness owns `mine`.  Checked all the way: nothing the harness still references is destroyed, no count
				// falls below the harness' share; at the end the holders go away top-down and each count must equal the harness' share
				// exactly before the harness lets go, after which the object must be gone.
				uint32_t x = (uint32_t) op.c * 2654435761u + 7u + (uint32_t) op.b * 977u;
				size_t led0 = ledger_live();
				std::vector<PObj> po;
				auto reg = [&](auto *t, int level, const char *what, int nr) { PObj o; o.mt = t; o.id = t->id(); o.count = [t] { return t->count(); }; o.mine = 1; o.level = level; o.what = what; o.nr = nr; po.push_back(o); };
				Tr<layout> *LY[2]; Tr<layout::graph> *GR[2]; Tr<layout::graph::world> *WD[2]; Tr<layout::graph::axis> *AX[2]; Tr<cycle> *CY[2];
				graphic *G; graphic::mapping *M;
				{ Sut su; G = new graphic; M = new graphic::mapping;
				  for (int i = 0; i < 2; ++i) { LY[i] = new Tr<layout>; GR[i] = new Tr<layout::graph>; WD[i] = new Tr<layout::graph::world>; AX[i] = new Tr<layout::graph::axis>; CY[i] = new Tr<cycle>; } }
				for (int i = 0; i < 2; ++i) { reg(LY[i], 0, "layout", i); reg(GR[i], 1, "graph", i); reg(WD[i], 2, "world", i); reg(AX[i], 2, "axis", i); reg(CY[i], 3, "cycle", i); }
				auto P = [&](const void *id) -> PObj & { for (auto &o : po) if (o.id == id) return o; return po[0]; };
				auto is_alive = [&](const PObj &o) { return g_plot_live.count(o.id) != 0; };
				metatype *clone_g = 0, *clone_l = 0;
				reference<cycle> hc[2];        // copies of references to cycles the library created
				auto cycle_alive = [&](cycle *c) { const void *id = static_cast<const metatype *>(c); for (auto &o : po) if (o.id == id) return g_plot_live.count(id) != 0; return ledger_covers(c); };
				auto verify = [&](const char *after) {
					check_pending();
					for (auto &o : po) {
						if (o.mine > 0 && !is_alive(o)) fail("destroyed-early", "after %s: %s %d was destroyed while the harness holds %ld reference(s)", after, o.what, o.nr, o.mine);
						if (is_alive(o) && o.count() < o.mine) fail("count-mismatch", "after %s: %s %d counts %ld reference(s), the harness alone holds %ld", after, o.what, o.nr, o.count(), o.mine);
					}
					for (auto &h : hc) if (h.instance() && !cycle_alive(h.instance())) fail("destroyed-early", "after %s: a cycle was destroyed while a copy of the reference a graph keeps to it exists", after);
				};
				// hand one reference to a library holder: taken first, given back if the library did not accept it
				auto give = [&](PObj &o, const std::function<bool()> &fn) -> bool {
					if (!is_alive(o)) return false;
					uintptr_t r; { Sut su; r = o.mt->addref(); }
					if (!r) fail("refused-valid", "%s %d refused a reference", o.what, o.nr);
					bool ok = fn();
					if (!ok) { Sut su; o.mt->unref(); }
					return ok;
				};
				const int steps = 8 + (int) (op.c % 3) * 8;
				for (int k = 0; k < steps; ++k) {
					x = x * 1664525u + 1013904223u;
					unsigned act = (x >> 12) % 16; int i = (x >> 8) & 1, j = (x >> 9) & 1, w = (x >> 10) & 1;
					uint64_t fn = ((x >> 4) & 3) == 0 ? 1 + ((x >> 6) % 3) : 0; bool fired = false;
					char nm[24]; snprintf(nm, sizeof nm, (x & 0x20000) ? "a-longer-name-for-item-number-%d" : "n%d", k);
					const char *name = (x & 0x10000) ? nm : 0;
					const char *what = "?";
					switch (act) {
					case 0: { what = "add_layout"; give(P(LY[i]->id()), [&] { int r; { Sut su(fn); r = G->add_layout(LY[i], (x >> 11) & 1); fired = g.fired; } return r >= 0; }); break; }
					case 1: { what = "remove_layout"; if (!is_alive(P(LY[i]->id()))) break; Sut su; G->remove_layout(LY[i]); break; }
					case 2: { what = "layout append graph"; if (!is_alive(P(LY[i]->id()))) break;
						give(P(GR[j]->id()), [&] { identifier id; if (name) id.set_name(name);
							// (the name may also be the identifier of one of the layout's own entries: it lies inside the entry array, which the append may move)
							const identifier *idp = name ? &id : 0; std::string want = name ? name : "";
							if ((x & 0x80000) && LY[i]->items().size()) { const item<metatype> &own = LY[i]->items().begin()[(x >> 21) % (uint32_t) LY[i]->items().size()]; const char *on; { Sut su; on = own.name(); } if (on) { idp = &own; want = on; st.hit("probe:group_append_named_after_own_entry"); } }
							long n0 = (long) LY[i]->items().size();
							int r; { Sut su(fn); r = LY[i]->append(idp, GR[j]); fired = g.fired; }
							// an entry that is reported as added carries the name it was given
							if (r >= 0 && (long) LY[i]->items().size() == n0 + 1) { const char *got; { Sut su; got = LY[i]->items().begin()[n0].name(); }
								if (std::string(got ? got : "") != want) fail("wrong-name", "layout entry appended with a name of %zu characters%s reads a name of %zu characters", want.size(), fired ? " (an allocation failed on the way)" : "", got ? strlen(got) : (size_t) 0); }
							return r >= 0; }); break; }
					case 3: { what = "graph append world/axis"; if (!is_alive(P(GR[j]->id()))) break;
						metatype *m = (x & 0x40000) ? static_cast<metatype *>(WD[w]) : static_cast<metatype *>(AX[w]);
						give(P(m), [&] { identifier id; if (name) id.set_name(name); int r; { Sut su(fn); r = GR[j]->append(name ? &id : 0, m); fired = g.fired; } return r >= 0; }); break; }
					case 4: { what = "layout bind"; if (!is_alive(P(LY[i]->id()))) break; Sut su(fn); LY[i]->bind(0, 0); fired = g.fired; break; }
					case 5: { what = "graph bind"; if (!is_alive(P(GR[j]->id()))) break; Sut su(fn); GR[j]->bind(0, 0); fired = g.fired; break; }
					case 6: { what = "add_world"; if (!is_alive(P(GR[j]->id()))) break;
						if (x & 0x40000) give(P(WD[w]->id()), [&] { void *it; { Sut su(fn); it = GR[j]->add_world(WD[w], name); fired = g.fired; } return it != 0; });
						else { Sut su(fn); GR[j]->add_world(0, name); fired = g.fired; }
						break; }
					case 7: { what = "add_axis"; if (!is_alive(P(GR[j]->id()))) break;
						if (x & 0x40000) give(P(AX[w]->id()), [&] { void *it; { Sut su(fn); it = GR[j]->add_axis(AX[w], name); fired = g.fired; } return it != 0; });
						else { Sut su(fn); GR[j]->add_axis(0, name); fired = g.fired; }
						break; }
					case 8: { what = "graph cycle()"; if (!is_alive(P(GR[j]->id()))) break;
						long n = (long) GR[j]->worlds().size(); if (!n) break; int pos = (int) ((x >> 20) % (uint32_t) n);
						if (!GR[j]->worlds().nth(pos)->instance()) break;
						const reference<cycle> *r; { Sut su; r = GR[j]->cycle(pos); }
						if (r && r->instance()) { Sut su; hc[w] = *r; st.hit("probe:graph_cycle_copied"); }
						break; }
					case 9: { what = "graph set_cycle"; if (!is_alive(P(GR[j]->id())) || !is_alive(P(CY[w]->id()))) break;
						long n = (long) GR[j]->worlds().size(); if (!n) break; int pos = (int) ((x >> 20) % (uint32_t) n);
						if (!GR[j]->worlds().nth(pos)->instance()) break;
						reference<cycle> tmp(CY[w]); { Sut su; GR[j]->set_cycle(pos, tmp); } tmp.detach(); st.hit("probe:graph_cycle_set");
						break; }
					case 10: { what = "mapping set_cycle";
						laydest d((uint8_t) i, (uint8_t) j, (uint8_t) ((x >> 20) & 1));
						if (x & 0x40000) give(P(CY[w]->id()), [&] { bool r; { Sut su(fn); r = M->set_cycle(d, CY[w]); fired = g.fired; } return r; });
						else { Sut su(fn); M->set_cycle(d, 0); fired = g.fired; }
						break; }
					case 11: { what = "mapping set/get/clear cycles";
						graphic::hint h((x & 0x100000) ? i : -1, (x & 0x200000) ? j : -1, (x & 0x400000) ? w : -1);
						unsigned v = (x >> 24) % 4;
						Sut su(fn);
						if (v == 0) M->set_cycles(G->_layouts.elements(), h); else if (v == 1) M->get_cycles(G->_layouts.elements(), h); else if (v == 2) M->clear_cycles(h); else M->clear();
						fired = g.fired; break; }
					case 12: { what = "clone";
						if (x & 0x40000) { if (clone_g) { Sut su; clone_g->unref(); clone_g = 0; } else if (is_alive(P(GR[j]->id()))) { Sut su(fn); clone_g = GR[j]->clone(); fired = g.fired; } }
						else if (clone_l && (x & 0x80000) && is_alive(P(LY[i]->id())) && is_alive(P(GR[j]->id()))) {
							// a graph is taken out of layout i while a clone of a layout exists (it may share the item entries): the clone lists what it listed before
							what = "group clear(ref) beside a clone";
							const item_group *cg = static_cast<const item_group *>(static_cast<const layout *>(clone_l)); std::vector<const void *> before; for (auto &it : cg->items()) before.push_back(it.instance());
							size_t n; { Sut su(fn); n = LY[i]->clear(GR[j]); fired = g.fired; }
							size_t k = 0; bool same = (size_t) cg->items().size() == before.size(); if (same) for (auto &it : cg->items()) if (it.instance() != before[k++]) { same = false; break; }
							if (!same) fail("other-handle-changed", "removing a graph from a layout (%zu entries released) changed the entries of a clone of a layout", n);
							st.hit("probe:group_clear_beside_clone");
						}
						else { if (clone_l) { Sut su; clone_l->unref(); clone_l = 0; } else if (is_alive(P(LY[i]->id()))) { Sut su(fn); clone_l = LY[i]->clone(); fired = g.fired; } }
						break; }
					case 15: { what = "cycle use"; if (!is_alive(P(CY[w]->id()))) break;
						// the plot data proper: values into a dimension of a stage, next stage, stage limit, a copy (which shares the stage array)
						cycle *c = CY[w]; unsigned v = (x >> 20) % 4;
						if (v == 0) { double vals[4] = {1, 2, 3, 4}; struct iovec vec; vec.iov_base = vals; vec.iov_len = sizeof(double) * (1 + (x >> 24) % 4); value val; val.set(MPT_type_toVector('d'), &vec);
							valdest vd; vd.cycle = (x >> 26) % 3; vd.offset = (x >> 28) % 3; Sut su(fn); int rc = c->modify((x >> 22) % 3, val, &vd); fired = g.fired; if (rc >= 0) st.hit("probe:cycle_filled"); }
						else if (v == 1) { Sut su(fn); c->advance(); fired = g.fired; }
						else if (v == 2) { Sut su(fn); c->limit_stages((x >> 24) % 4); fired = g.fired; }
						else { cycle *cl; { Sut su(fn); cl = c->clone(); fired = g.fired; } if (cl) { Sut su; cl->unref(); } }
						break; }
					case 13: case 14: { what = "harness take/drop";
						PObj &o = po[(x >> 20) % po.size()];
						if (o.mine > 0 && (x & 0x40000)) { --o.mine; Sut su; o.mt->unref(); }
						else if (is_alive(o) && o.mine < 3) { uintptr_t r; { Sut su; r = o.mt->addref(); } if (!r) fail("refused-valid", "%s %d refused a reference", o.what, o.nr); ++o.mine; }
						break; }
					}
					if (fired) st.hit("fault:allocfail");
					log.ev("    plot %s%s", what, fired ? " (allocation failed)" : "");
					verify(what);
				}
				// the holders go away, top-down
				{ Sut su; if (clone_g) clone_g->unref(); if (clone_l) clone_l->unref(); delete M; delete G; }
				verify("the graphic and the mapping went away");
				for (int level = 0; level < 4; ++level) {
					for (auto &o : po) if (o.level == level) {
						if (!is_alive(o)) continue;
						if (o.mine == 0) fail("never-destroyed", "%s %d is still alive (count %ld) although every holder above it is gone and the harness holds nothing", o.what, o.nr, o.count());
						if (o.count() != o.mine) fail(o.count() > o.mine ? "never-destroyed" : "count-mismatch", "%s %d counts %ld reference(s) when only the harness' %ld are left", o.what, o.nr, o.count(), o.mine);
						while (o.mine > 0) { --o.mine; Sut su; o.mt->unref(); }
						if (is_alive(o)) fail("never-destroyed", "%s %d survived its last reference", o.what, o.nr);
					}
					if (level == 2) for (auto &h : hc) if (h.instance()) { if (!cycle_alive(h.instance())) fail("destroyed-early", "a cycle went away with the graph although a copy of the reference exists"); Sut su; h.set_instance(0); }
					check_pending();
				}
				if (ledger_live() != led0) fail("never-destroyed", "%zu block(s) more than before the plot episode are still allocated: %s", ledger_live() - led0, ledger_describe().c_str());
				log.ev("PLOT_OBJECTS episode");
				outcome = 1;
				break;
			}
			case OP_ADD_ITEMS: {
				// a node list is added to a layout: nodes carrying a shareable object hand the group a reference of its own,
				// nodes named "<type> <name>" create an item, everything else is a property
				uint32_t x = (uint32_t) op.c * 2654435761u + 3u + (uint32_t) op.b * 7919u;
				size_t led0 = ledger_live();
				long before[3]; for (int i = 0; i < 3; ++i) before[i] = alive(i) ? obj[i]->refs : -1;
				Tr<layout> *L; { Sut su; L = new Tr<layout>; }
				const void *lid = L->id();
				std::vector<node *> nodes; long nodeheld[3] = {0, 0, 0};
				int nn = 1 + (int) ((x >> 28) % 4);
				static const char *const names[] = {"graph g1", "graph g2", "world w1", "axis a1", "line l1", "text t1", "alias", "name", "graph g1", "bogus b1", "graph", "xaxis x1",
					"line an-item-name-beyond-the-inline-capacity", "graph a-graph-name-beyond-the-inline-capacity"};      // (item names that need an allocation of their own)
				for (int k = 0; k < nn; ++k) {
					x = x * 1664525u + 1013904223u;
					unsigned kind = (x >> 12) % 4; int o = (int) ((x >> 16) % 3);
					const char *nm = names[(x >> 20) % 14];
					node *n; { Sut su; n = mpt_node_new(strlen(nm) + 1); if (n && !mpt_identifier_set(&n->ident, nm, -1)) { mpt_node_destroy(n); n = 0; } }
					if (!n) continue;
					if (kind == 0 && alive(o) && model[o] == 1) { uintptr_t r; { Sut su; r = obj[o]->addref(); } if (r) { n->_meta = obj[o]; ++nodeheld[o]; } }
					else if (kind == 1) { const char *txt = "text"; value v; v.set('s', &txt); Sut su; n->_meta = mpt_meta_new(&v); }
					if (!nodes.empty()) { nodes.back()->next = n; n->prev = nodes.back(); }
					nodes.push_back(n);
				}
				uint64_t fn = op.fault == FL_ALLOC ? (uint64_t) std::max<int64_t>(op.fa, 1) : 0; bool fired = false, ok = false;
				if (!nodes.empty()) { Sut su(fn); ok = add_items(*L, nodes[0], 0, 0); fired = g.fired; }
				if (fired) st.hit("fault:allocfail");
				check_pending();
				long groupheld[3] = {0, 0, 0}; long created = 0;
				if (!g_plot_live.count(lid)) fail("destroyed-early", "the layout was destroyed by add_items");
				for (auto &it : L->items()) { metatype *m = it.instance(); if (!m) continue; int i = idx(m); if (i >= 0) ++groupheld[i]; else ++created; }
				log.ev("ADD_ITEMS %d node(s) -> %d%s: %ld shared object(s) and %ld created item(s) in the layout", nn, (int) ok, fired ? " (allocation failed)" : "", groupheld[0] + groupheld[1] + groupheld[2], created);
				for (int i = 0; i < 3; ++i) if (before[i] >= 0) {
					if (!alive(i)) fail("destroyed-early", "object %d was destroyed by add_items while a node and %ld item(s) reference it", i, groupheld[i]);
					if (obj[i]->refs != before[i] + nodeheld[i] + groupheld[i]) fail("count-mismatch", "after add_items object %d counts %ld references: %ld before, %ld node(s) and %ld layout item(s) hold it", i, obj[i]->refs, before[i], nodeheld[i], groupheld[i]);
				}
				if (groupheld[0] + groupheld[1] + groupheld[2]) st.hit("probe:add_items_shared_object");
				if (created) st.hit("probe:add_items_created_item");
				{ Sut su; L->unref(); }
				if (g_plot_live.count(lid)) fail("never-destroyed", "the layout survived its only reference");
				check_pending();
				for (int i = 0; i < 3; ++i) if (before[i] >= 0 && (!alive(i) || obj[i]->refs != before[i] + nodeheld[i]))
					fail(alive(i) && obj[i]->refs > before[i] + nodeheld[i] ? "never-destroyed" : "destroyed-early", "after the layout went away object %d counts %ld references, %ld expected (%ld node(s) hold it)", i, alive(i) ? obj[i]->refs : 0, before[i] + nodeheld[i], nodeheld[i]);
				for (node *n : nodes) { n->next = n->prev = 0; Sut su; mpt_node_destroy(n); }
				check_pending();
				for (int i = 0; i < 3; ++i) if (before[i] >= 0 && (!alive(i) || obj[i]->refs != before[i]))
					fail(alive(i) && obj[i]->refs > before[i] ? "never-destroyed" : "destroyed-early", "after the nodes went away object %d counts %ld references, %ld before the episode", i, alive(i) ? obj[i]->refs : 0, before[i]);
				if (ledger_live() != led0) fail("never-destroyed", "%zu block(s) more than before add_items are still allocated: %s", ledger_live() - led0, ledger_describe().c_str());
				outcome = ok;
				break;
			}
			case OP_NOTIFY: {
				// a notifier as holder of input references: it owns one reference per registered input, gives it back when the input is
				// cleared (or asks for work and is told "error"), when the notifier ends; a cleared input is never handed out afterwards
				uint32_t x = (uint32_t) op.c * 2654435761u + 11u + (uint32_t) op.b * 131u;
				size_t led0 = ledger_live();
				// (the C structure, set up as MPT_NOTIFY_INIT does: a C++ `notify` object starts with a slot array of the C++ reference traits,
				// which mpt_notify_add refuses as a foreign buffer - every add fails with BadType; noted in DESIGN.md)
				notify *no = (notify *) calloc(1, sizeof(notify)); no->_sysfd = -1;
				const int NI = 3; HInput *in[NI]; int chans[NI]; bool reg[NI] = {false, false, false}; long mine[NI];
				for (int i = 0; i < NI; ++i) { chans[i] = simio::new_chan(4096); int fd = simio::new_fd(chans[i], -1, O_RDONLY | O_NONBLOCK); in[i] = new HInput(fd); mine[i] = 1; }
				auto verifyN = [&](const char *after) {
					check_pending();
					for (int i = 0; i < NI; ++i) {
						bool alive = g_input_live.count(in[i]) != 0; long want = mine[i] + (reg[i] ? 1 : 0);
						if (!alive && want > 0) fail("destroyed-early", "after %s: input %d was destroyed while %ld holder(s) reference it (notifier: %d)", after, i, want, (int) reg[i]);
						if (alive && in[i]->refs != want) fail(in[i]->refs > want ? "never-destroyed" : "count-mismatch", "after %s: input %d counts %ld references, %ld expected (harness %ld, notifier %d)", after, i, in[i]->refs, want, mine[i], (int) reg[i]);
					}
				};
				const int steps = 6 + (int) (op.c % 3) * 5;
				for (int k = 0; k < steps; ++k) {
					x = x * 1664525u + 1013904223u;
					unsigned act = (x >> 12) % 6; int i = (int) ((x >> 8) % NI);
					uint64_t fn = ((x >> 4) & 3) == 0 ? 1 + ((x >> 6) % 2) : 0; bool fired = false; const char *what = "?";
					if (k == 2 && (op.b & 4) && g_input_live.count(in[i]) && mine[i]) {
						// the input is the value of the configuration element "mpt.connect"; the notifier is configured from it twice. It takes a
						// reference when it registers the input and none when it refuses it (the slot of that descriptor is taken)
						what = "configure (twice)";
						mpt::path cp; cp.sep = '.'; cp.assign = 0; node *cn = 0;
						{ Sut su; mpt_path_set(&cp, "mpt.connect", -1); metatype *view = mpt_config_global(&cp); if (view) { view->convert(TypeNodePtr, &cn); view->unref(); } }
						if (cn) {
							{ Sut su; in[i]->addref(); } cn->_meta = in[i];
							int r1, r2; { Sut su; r1 = mpt_notify_config(no, 0); }
							bool stored = false; { buffer *sb = *reinterpret_cast<buffer **>(&no->_slot); if (sb && (size_t) in[i]->fd < sb->_used / sizeof(void *)) stored = ((input **) (sb + 1))[in[i]->fd] == in[i]; }
							reg[i] = stored;
							// (the second time with the configuration handed in: the process-wide one, or its 'mpt' sub-tree)
							if (x & 0x100000) { config *gc = 0; metatype *gm = 0; { Sut su; mpt::path sp; sp.sep = '.'; sp.assign = 0; mpt_path_set(&sp, "mpt", -1); gm = mpt_config_global(&sp); if (gm) gm->convert(TypeConfigPtr, &gc); }
								if (gc) { Sut su; r2 = mpt_notify_config(no, gc); } else r2 = -1; if (gm) { Sut su; gm->unref(); } st.hit("probe:notifier_configured_from_given_config"); }
							else { Sut su; r2 = mpt_notify_config(no, 0); }
							log.ev("    notifier configured from 'mpt.connect' = input %d: %d, again: %d (registered %d)", i, r1, r2, (int) reg[i]);
							long want = mine[i] + 1 + (reg[i] ? 1 : 0);
							if (g_input_live.count(in[i]) && in[i]->refs != want) fail(in[i]->refs > want ? "never-destroyed" : "count-mismatch", "input %d is held by the harness (%ld), a configuration element and the notifier (%d) but counts %ld references after the notifier was configured from it twice (%d, %d)", i, mine[i], (int) reg[i], in[i]->refs, r1, r2);
							cn->_meta = 0; { Sut su; in[i]->unref(); }
							st.hit("probe:notifier_configured_from_input");
						}
						{ Sut su; mpt_config_set(0, "mpt", 0, '.', 0); }
						log.ev("    notifier %s input %d", what, i);
						verifyN(what);
						continue;
					}
					switch (act) {
					case 0: case 1: { what = "add";
						if (reg[i] || !g_input_live.count(in[i]) || !mine[i]) break;
						{ Sut su; in[i]->addref(); }
						int rc; { Sut su(fn); rc = mpt_notify_add(no, POLLIN, in[i]); fired = g.fired; }
						// the notifier took the reference, or says it did not
						bool stored = false; { buffer *sb = *reinterpret_cast<buffer **>(&no->_slot); if (sb && (size_t) in[i]->fd < sb->_used / sizeof(void *)) stored = ((input **) (sb + 1))[in[i]->fd] == in[i]; }
						if (rc >= 0 && !stored) fail("never-destroyed", "mpt_notify_add reports success (%d)%s but did not keep the input: the reference handed over is lost", rc, fired ? " after an allocation failure" : "");
						if (rc < 0 && stored) fail("count-mismatch", "mpt_notify_add reports failure (%d) but kept the input", rc);
						log.ev("    notifier add input %d (fd %d) -> %d stored=%d%s", i, in[i]->fd, rc, (int) stored, fired ? " allocfail" : "");
						if (rc >= 0) reg[i] = true; else { Sut su; in[i]->unref(); }
						break; }
					case 2: { what = "clear"; if (!reg[i]) break; { Sut su; mpt_notify_clear(no, in[i]->fd); } reg[i] = false; break; }
					case 3: { what = "wait";
						// some inputs get data; one of them may answer the notifier's question with an error (it is cleared then)
						for (int q = 0; q < NI; ++q) if ((x >> (20 + q)) & 1) { simio::Chan *c = simio::chan(chans[q]); c->wire.push_back((uint8_t) 'x'); simio::deliver(chans[q], 8); }
						int bad = (x & 0x1000000) ? (int) ((x >> 26) % NI) : -1; if (bad >= 0) in[bad]->next_result = -1;
						std::vector<int> was; for (int q = 0; q < NI; ++q) was.push_back(reg[q]);
						int rc; { Sut su(fn); rc = mpt_notify_wait(no, POLLIN, 0); fired = g.fired; }
						if (bad >= 0) { in[bad]->next_result = 1; if (was[bad]) { buffer *sb = *reinterpret_cast<buffer **>(&no->_slot); bool still = sb && (size_t) in[bad]->fd < sb->_used / sizeof(void *) && ((input **) (sb + 1))[in[bad]->fd] == in[bad]; if (!still) reg[bad] = false; } }
						log.ev("    notifier wait -> %d", rc);
						break; }
					case 4: { what = "next";
						input *n; { Sut su; n = mpt_notify_next(no); }
						if (n) { int q = -1; for (int z = 0; z < NI; ++z) if (n == in[z]) q = z;
							if (q < 0) fail("wrong-entry", "the notifier handed out an input nobody registered");
							if (!reg[q]) fail("destroyed-early", "the notifier handed out input %d after it was cleared (its reference is gone)", q);
							st.hit("probe:notifier_input_handed_out"); }
						break; }
					case 5: { what = "harness take/drop";
						if (mine[i] > 0 && (x & 0x40000)) { --mine[i]; Sut su; in[i]->unref(); }
						else if (g_input_live.count(in[i]) && mine[i] < 2) { { Sut su; in[i]->addref(); } ++mine[i]; }
						break; }
					}
					if (fired) st.hit("fault:allocfail");
					log.ev("    notifier %s input %d%s", what, i, fired ? " (allocation failed)" : "");
					verifyN(what);
				}
				{ Sut su; mpt_notify_fini(no); } free(no);
				for (int i = 0; i < NI; ++i) reg[i] = false;
				verifyN("the notifier went away");
				for (int i = 0; i < NI; ++i) { while (mine[i] > 0) { --mine[i]; Sut su; in[i]->unref(); } if (g_input_live.count(in[i])) fail("never-destroyed", "input %d survived its last reference (count %ld)", i, in[i]->refs); }
				check_pending();
				for (int i = 0; i < NI; ++i) { int fd = in[i]->fd; delete in[i]; close(fd); }
				if (ledger_live() != led0) fail("never-destroyed", "%zu block(s) more than before the notifier episode are still allocated: %s", ledger_live() - led0, ledger_describe().c_str());
				log.ev("NOTIFIER episode");
				outcome = 1;
				break;
			}
			case OP_BUF_CLONE: {
				// three handles on one library buffer: alive iff some handle refers to it
				int h = (int) (op.c % 3), h2 = (int) ((op.c / 3) % 3); int v = (int) (op.b % 4);
				if (v == 3) {
					// the handle asks for a private buffer (same kind, or retyped to characters): it lets go of the one it shared
					const void *was = bufh[h].buf; long holders = 0; for (auto &x : bufh) if (was && x.buf == was) ++holders;
					if (!was) break;
					const type_traits *tt = (op.c & 16) ? mpt_type_traits('c') : 0;
					buffer *nb; { Sut su(failn); nb = mpt_array_reserve(AR(bufh[h]), 8 + (size_t) (op.c % 40), tt); if (g.fired) st.hit("fault:allocfail"); }
					log.ev("BUFFER handle %d reserve%s (buffer had %ld holders) -> %s", h, tt ? " as characters" : "", holders, nb ? (nb == was ? "same buffer" : "new buffer") : "null");
					if (nb && nb != was) { bool freed = !ledger_covers(was); if ((holders == 1) != freed) fail(freed ? "destroyed-early" : "never-destroyed", "buffer with %ld holders %s after one handle moved to a private buffer", holders, freed ? "was freed" : "stayed allocated"); st.hit("probe:reserve_left_shared_buffer"); }
					if (nb && nb == was && holders > 1) fail("still-shared", "reserve handed out a buffer that %ld handles share", holders);
					outcome = 3; break;
				}
				if (v == 0 && !bufh[h].buf) { { Sut su(failn); bufh[h].buf = _mpt_buffer_alloc(16, 0); if (g.fired) st.hit("fault:allocfail"); } log.ev("BUFFER new in handle %d -> %s", h, bufh[h].buf ? "ok" : "null"); }
				else if (v == 1) { const void *was = bufh[h].buf; long holders = 0; for (auto &x : bufh) if (x.buf == was) ++holders;
					int rc; { Sut su; rc = mpt_array_clone(AR(bufh[h]), AR(bufh[h2])); }
					log.ev("BUFFER handle %d := handle %d -> %d", h, h2, rc);
					if (was && was != bufh[h].buf) { bool freed = !ledger_covers(was); if ((holders == 1) != freed) fail(freed ? "destroyed-early" : "never-destroyed", "buffer with %ld holders %s after one handle was reassigned", holders, freed ? "was freed" : "stayed allocated"); } }
				else { const void *was = bufh[h].buf; long holders = 0; for (auto &x : bufh) if (was && x.buf == was) ++holders;
					{ Sut su; mpt_array_clone(AR(bufh[h]), 0); }
					log.ev("BUFFER handle %d released", h);
					if (was) { bool freed = !ledger_covers(was); if ((holders == 1) != freed) fail(freed ? "destroyed-early" : "never-destroyed", "buffer with %ld holders %s after one release", holders, freed ? "was freed" : "stayed allocated"); } }
				outcome = v;
				break;
			}
			}
			if (g_refused) { st.hit("fault:addref_refused", g_refused); g_refused = 0; }
			st.state(800 + op.kind, (op.fault) * 16 + (int) std::min<size_t>(g_live.size(), 3) * 4 + (ra.buf && ra.buf == rb.buf ? 2 : 0) + (ra.buf ? 1 : 0), outcome);
			audit(OPS[op.kind]);
		}
		// teardown: every holder lets go; all objects must be destroyed exactly then
		for (int k = 0; k < 4; ++k) if (slot[k]) { metatype *m = slot[k]; slot[k] = 0; Sut su; m->unref(); }
		{ Sut su; mpt_array_clone(AR(ra), 0); mpt_array_clone(AR(rb), 0); }
		for (int k = 0; k < 2; ++k) { { Sut su; cref[k]->set_instance(0); } delete cref[k]; }
		for (int i = 0; i < 3; ++i) if (model[i] == 1 && g_live.count(all[(size_t) i])) { Sut su; obj[i]->unref(); model[i] = 0; }
		check_pending();
		for (int i = 0; i < 3; ++i) if (g_live.count(all[(size_t) i])) fail("never-destroyed", "object %d still alive after every holder dropped its reference (count %ld, addref %ld, unref %ld)", i, obj[i]->refs, obj[i]->addrefs, obj[i]->unrefs);
		for (int k = 0; k < NK; ++k) while (lib[k] && lib_model[k] > 0) { { Sut su; lib[k]->unref(); } --lib_model[k]; }
		for (auto &x : bufh) { Sut su; mpt_array_clone(AR(x), 0); }
		for (HObj *o : all) delete o;
		if (ledger_live()) fail("never-destroyed", "%zu block(s) still allocated after every reference was dropped: %s", ledger_live(), ledger_describe().c_str());
	}
	// the allocation that stands for a library object
	static const void *lib_base(int kind, metatype *m) {
		switch (kind) {
		case 0: return (const uint8_t *) m - (sizeof(void *) * 2 + sizeof(refcount)); // reply_context_defer: {send, ptr, ref, _mt ...}
		case 3: return (const void *) m;
		default: return (const void *) m;
		}
	}
};

namespace sim { World *the_world() { static RefsWorld w; return &w; } }
