// world `enc` (C01): one message, handed to a real encoder in plan-chosen pieces
// while the output window is granted in plan-chosen steps; the finished frame is
// read back by the matching real decoder.  A Python client node (mpt.py) encodes
// the same message and its frame goes through the same real decoder.
#include "worlds/common.hpp"
#include <unistd.h>
#include <signal.h>
#include <sanitizer/asan_interface.h>

using namespace sim;
using namespace mpt;

enum { OP_PUSH, OP_GRANT, OP_TERM };
enum { FL_NONE, FL_ALLOC };
static const char *const OPS[] = {"PUSH", "GRANT", "TERM", 0};
static const char *const FAULTS[] = {"none", "allocfail", 0};

// ---------------------------------------------------------------- python client node
struct PyNode {
	pid_t pid = -1; int to = -1, from = -1; bool failed = false;
	bool start() {
		if (pid > 0) return true;
		if (failed) return false;
		int a[2], b[2];
		if (pipe(a) || pipe(b)) { failed = true; return false; }
		pid = fork();
		if (pid < 0) { failed = true; return false; }
		if (!pid) {
			dup2(a[0], 0); dup2(b[1], 1); close(a[1]); close(b[0]);
			signal(SIGALRM, SIG_DFL); alarm(0);
			execlp("python3", "python3", VERIF_DIR "/sim/py/client_node.py", VERIF_REPO "/mpt.py", (char *) 0);
			_exit(127);
		}
		close(a[0]); close(b[1]); to = a[1]; from = b[0];
		return true;
	}
	// returns false if the node is unavailable; ok=false if the client refused the message
	bool encode(int framing, const Bytes &m, Bytes &frame, bool &ok) {
		if (!start()) return false;
		std::string line = (framing == ref::COMMAND ? "command " : "cobs ");
		line += m.empty() ? "-" : sim::hex(m.data(), m.size(), (size_t) -1);
		line += "\n";
		if (write(to, line.data(), line.size()) != (ssize_t) line.size()) { failed = true; pid = -1; return false; }
		std::string resp; char c;
		while (true) {
			ssize_t n = read(from, &c, 1);
			if (n <= 0) { failed = true; pid = -1; return false; }
			if (c == '\n') break;
			resp += c;
		}
		frame.clear();
		ok = resp.compare(0, 3, "ok ") == 0;
		if (ok) for (size_t i = 3; i + 1 < resp.size(); i += 2) frame.push_back((uint8_t) strtoul(resp.substr(i, 2).c_str(), 0, 16));
		return true;
	}
};
static PyNode py;

// ---------------------------------------------------------------- decode with the documented caller protocol
// (examples/core/coding.c): whole buffer as one vector; on MissingBuffer insert
// 8 bytes at `curr` and retry
// With `cut` in 1..size-1 the frame arrives in two pieces: the decoder first sees
// only the bytes before `cut` (and whatever space it was granted among them), then,
// with the same state, the whole frame.  Returns 0 when the decoder reports an error
// on the incomplete first piece (nothing is demanded of that here).
static int real_decode(int framing, const Bytes &frame, unsigned mis, Bytes &out, Log &log, std::string &why, size_t cut = 0) {
	data_decoder_t dec = decoder_for(framing);
	decode_state info;
	Bytes buf = frame;
	size_t rounds = 0, cap = frame.size() + 16;
	size_t hidden = (cut && cut < frame.size()) ? frame.size() - cut : 0;   // bytes at the end that have not arrived yet
	while (true) {
		const size_t seen = buf.size() - hidden;
		Block blk(seen, mis);
		if (seen) memcpy(blk.p, buf.data(), seen);
		struct iovec vec; vec.iov_base = blk.p; vec.iov_len = blk.n;
		int code;
		{ Sut s; code = dec(&info, &vec, 1); }
		if (seen) memcpy(buf.data(), blk.p, seen);
		if (hidden) {
			log.ev("decode %s piece of %zu/%zu ret=%d curr=%zu pos=%zu len=%zu msg=%zd", ref::framing_name(framing), seen, buf.size(), code, info.curr, info.data.pos, info.data.len, info.data.msg);
			if (code == E_MissingBuffer) {
				if (++rounds > cap) { why = "decoder keeps asking for buffer"; return -100; }
				if (info.curr > seen) { why = "decoder position beyond data"; return -101; }
				buf.insert(buf.begin() + info.curr, 8, 0xAA);
				info.curr += 8;
				continue;
			}
			if (code < 0) return 0;
			if (code > 0) { why = "decoder delivered a message before the frame's delimiter arrived"; return -104; }
			if (info.curr > seen) { why = "decoder position beyond data"; return -101; }
			hidden = 0;
			continue;
		}
		if (code == E_MissingBuffer) {
			if (++rounds > cap) { why = "decoder keeps asking for buffer"; return -100; }
			if (info.curr > buf.size()) { why = "decoder position beyond data"; return -101; }
			buf.insert(buf.begin() + info.curr, 8, 0xAA);
			info.curr += 8;
			continue;
		}
		log.ev("decode %s ret=%d curr=%zu pos=%zu len=%zu msg=%zd grants=%zu", ref::framing_name(framing), code, info.curr, info.data.pos, info.data.len, info.data.msg, rounds);
		if (code < 0) { why = "decoder reports error " + std::to_string(code); return code; }
		if (code == 0 || info.data.msg < 0) { why = "decoder reports incomplete message on a complete frame"; return -102; }
		if (info.data.pos + (size_t) info.data.msg > buf.size()) { why = "decoded window outside buffer"; return -103; }
		out.assign(buf.begin() + info.data.pos, buf.begin() + info.data.pos + info.data.msg);
		return 1;
	}
}

struct EncWorld : World {
	const char *name() const override { return "enc"; }
	const char *const *opnames() const override { return OPS; }
	const char *const *faultnames() const override { return FAULTS; }
	const char *const *shrinkable_cfg() const override { static const char *const k[] = {"win0", "mis", "dmis", "py", "inc", "dcut", 0}; return k; }
	const char *components_json() const override {
		return "{\"real\":[\"mpt_encode_cobs\",\"mpt_encode_cobs_r\",\"mpt_encode_cobs_zpe\",\"mpt_encode_cobs_zpe_r\",\"mpt_encode_string\","
		       "\"mpt_array_push + buffer detach growth\",\"mpt_decode_cobs\",\"mpt_decode_cobs_r\",\"mpt_decode_cobs_zpe\",\"mpt_decode_cobs_zpe_r\",\"mpt_decode_command\","
		       "\"mpt.py encode_cobs/encode_command in a python3 child (client node)\"],"
		       "\"stub\":[\"output window (exact-size heap block regranted by plan)\",\"allocator (ledger + n-th allocation fails)\",\"reference COBS codecs for diagnostics\"]}";
	}

	void gen_ops(Rng &r, Plan &p, size_t mlen) {
		int nops = (int) r.range(0, 30);
		int style = (int) r.below(4); // 0: mixed, 1: tiny pushes + tiny grants, 2: big pushes tiny grants, 3: exact-fit grants
		bool allocf = p.get("mode") == 1 && r.chance(1, 3);
		for (int i = 0; i < nops; ++i) {
			Op op;
			unsigned k = (unsigned) r.below(10);
			if (k < 5) {
				op.kind = OP_PUSH;
				op.a = style == 1 ? r.range(1, 3) : style == 2 ? r.range(100, 600) : edgy(r, 400);
				if (op.a == 0) op.a = 1;
				if (allocf && r.chance(1, 4)) { op.fault = FL_ALLOC; op.fa = r.range(1, 3); }
			} else if (k < 9) {
				op.kind = OP_GRANT;
				op.a = style == 0 ? edgy(r, 300) : style == 3 ? r.range(1, 260) : r.range(1, 3);
				if (op.a == 0) op.a = 1;
			} else {
				op.kind = OP_TERM;
				if (allocf && r.chance(1, 4)) { op.fault = FL_ALLOC; op.fa = r.range(1, 2); }
			}
			p.ops.push_back(op);
		}
	}
	void gen(Rng &r, Plan &p, int tier) override {
		int framing = (int) r.below(5);
		p.set("framing", framing);
		p.set("mode", r.chance(1, 3) ? 1 : 0);       // 0 direct window, 1 mpt_array_push
		// array mode only: a first message of this many bytes is pushed, taken and consumed through the C++ encode_array interface before the message proper
		p.set("prelude", r.chance(1, 2) ? 0 : (r.chance(1, 2) ? r.range(1, 64) : r.range(64, 400)));
		p.set("preflags", r.below(64));       // bit 0: push the first message as a two-fragment mpt::message, bit 1: compact (shift(0)) after consuming, bit 2: consume in two steps, bit 3: a copy of the array exists while half of the first frame still waits (the buffer is shared when the next message is pushed), bit 4: the message proper is dropped once after its first accepted push and started again, bit 5: part of its finished blocks is taken before the drop (which then has to be refused)
		p.set("win0", r.chance(1, 2) ? 0 : edgy(r, 300));
		p.set("inc", r.chance(1, 2) ? r.range(1, 3) : r.range(1, 64)); // drain grant increment
		p.set("mis", r.range(0, 15));
		p.set("dmis", r.range(0, 15));
		p.set("py", (framing == ref::COBS || framing == ref::COMMAND) && r.chance(1, 3) ? 1 : 0);
		Bytes m = gen_message(r, tier ? 1100 : 700, framing != ref::COMMAND);
		p.blobs.push_back(m);
		gen_ops(r, p, m.size());
		// the finished frame reaches the decoder a second time in two pieces (0: not); drawn last so that everything before it is as it was
		p.set("dcut", r.chance(1, 2) ? 0 : r.range(1, 65535));
	}

	// ---- enumeration: boundary corpus x framing x split point x window start x increment
	static Bytes corpus_msg(unsigned id) {
		Bytes m;
		if (id <= 520) { for (unsigned i = 0; i < id; ++i) m.push_back((uint8_t) (1 + i % 255)); return m; } // non-zero ramp, every length
		id -= 521;
		// zero-pair patterns around the pair-code limits: k data bytes, two zeros, tail
		unsigned k = id / 6, v = id % 6; // k in 0..40
		for (unsigned i = 0; i < k; ++i) m.push_back((uint8_t) (0x41 + i % 26));
		m.push_back(0); if (v != 5) m.push_back(0);
		if (v == 1) m.push_back(0x07);
		if (v == 2) { m.push_back(0); }
		if (v == 3) { m.push_back(0xe1); m.push_back(0); m.push_back(0); }
		if (v == 4) { m.push_back(0xff); }
		return m;
	}
	static const unsigned NCORPUS = 521 + 41 * 6;
	uint64_t sweep_count(int tier) override {
		// msg x framing(5) x winstart(3) x inc(3) x split(sampled per message: <= 12 positions quick, all thorough)
		return (uint64_t) NCORPUS * 5 * 3 * 3 * (tier ? 64 : 6);
	}
	void sweep_plan(uint64_t idx, int tier, Plan &p) override {
		unsigned nsplit = tier ? 64 : 6;
		unsigned split = idx % nsplit; idx /= nsplit;
		unsigned inc = idx % 3; idx /= 3;
		unsigned ws = idx % 3; idx /= 3;
		unsigned framing = idx % 5; idx /= 5;
		unsigned id = (unsigned) idx;
		Bytes m = corpus_msg(id);
		if (framing == ref::COMMAND) for (auto &b : m) if (!b) b = 0x2e;
		static const int incs[] = {1, 2, 64};
		static const int wss[] = {0, 1, 5};
		p.set("framing", framing); p.set("mode", 0); p.set("win0", wss[ws]); p.set("inc", incs[inc]);
		p.set("mis", 0); p.set("dmis", (id + split) & 15); p.set("py", 0); p.set("dcut", 1 + (id * 31 + split * 7 + inc) % 997);
		p.blobs.push_back(m);
		// split position: spread over the message with emphasis on the end region
		size_t len = m.size();
		size_t at = 0;
		if (len) {
			if (split < nsplit / 2) at = (len * split) / (nsplit / 2);
			else { size_t back = split - nsplit / 2; at = back < len ? len - 1 - back : 0; }
		}
		Op a; a.kind = OP_PUSH; a.a = (int64_t) at; if (at) p.ops.push_back(a);
	}

	// ---- execution
	void exec(const Plan &p, Log &log, Stats &st) override {
		const int framing = (int) p.get("framing") % 5;
		const int mode = (int) p.get("mode") & 1;
		const Bytes &msg = p.blob(0);
		const unsigned mis = (unsigned) p.get("mis") & 15, dmis = (unsigned) p.get("dmis") & 15;
		size_t inc = (size_t) p.get("inc", 1); if (inc < 1) inc = 1; if (inc > 4096) inc = 4096;
		dcut = (size_t) std::min<int64_t>(std::max<int64_t>(p.get("dcut"), 0), 65535); stats = &st;
		Bytes msgx = msg;
		if (framing == ref::COMMAND) for (auto &b : msgx) if (!b) b = 0x2e; // framing admits no zero
		log.ev("enc framing=%s mode=%s len=%zu msg=%s", ref::framing_name(framing), mode ? "array" : "direct", msgx.size(), sim::hex(msgx, 24).c_str());
		st.hit(std::string("framing:") + ref::framing_name(framing));
		st.hit(mode ? "mode:array" : "mode:direct");

		Bytes frame;
		if (mode == 0) run_direct(p, framing, msgx, mis, inc, frame, log, st);
		else run_array(p, framing, msgx, inc, frame, log, st);

		// --- finished frame: exactly one zero byte, the last one
		size_t zeros = 0;
		for (uint8_t b : frame) if (!b) ++zeros;
		log.ev("frame len=%zu %s", frame.size(), sim::hex(frame, 40).c_str());
		if (frame.empty() || frame.back() != 0 || zeros != 1)
			fail("frame-zero", "%s frame of %zu bytes has %zu zero bytes, last byte %02x (want exactly one, the delimiter)",
			     ref::framing_name(framing), frame.size(), zeros, frame.empty() ? 0xff : frame.back());
		check_roundtrip(framing, msgx, frame, dmis, "c-encoder", log);
		st.state(1, framing, (msgx.size() > 0) + (msgx.size() >= 222) + (msgx.size() >= 254) + 4 * (frame.size() % 7));

		// --- python client node
		if (p.get("py") && (framing == ref::COBS || framing == ref::COMMAND)) {
			Bytes pf; bool ok = false;
			if (!py.encode(framing, msgx, pf, ok)) { log.ev("python node unavailable"); st.hit("py:unavailable"); }
			else if (!ok) fail("py-refused", "python client refused a message the framing admits (len %zu)", msgx.size());
			else {
				st.hit("py:frames");
				size_t z = 0; for (uint8_t b : pf) if (!b) ++z;
				if (pf.empty() || pf.back() != 0 || z != 1)
					fail("py-frame-zero", "python %s frame of %zu bytes has %zu zero bytes", ref::framing_name(framing), pf.size(), z);
				check_roundtrip(framing, msgx, pf, dmis, "python-client", log);
			}
			// command text with a zero byte in it is not admitted by the framing: a frame made of it would hold two delimiters
			if (framing == ref::COMMAND && !msgx.empty()) {
				Bytes bad = msgx; bad[bad.size() / 2] = 0; Bytes pf2; bool ok2 = false;
				if (py.encode(framing, bad, pf2, ok2) && ok2) {
					size_t z = 0; for (uint8_t b : pf2) if (!b) ++z;
					fail("py-frame-zero", "python client framed a command text with a zero byte in it: the frame of %zu bytes has %zu zero bytes", pf2.size(), z);
				}
				st.hit("probe:py_text_with_zero_refused");
			}
		}
		if (ledger_live()) fail("leak", "%zu block(s) still allocated after the run: %s", ledger_live(), ledger_describe().c_str());
	}

	size_t dcut = 0; Stats *stats = 0;
	void check_roundtrip(int framing, const Bytes &msg, const Bytes &frame, unsigned dmis, const char *who, Log &log) {
		check_roundtrip_cut(framing, msg, frame, dmis, who, log, 0);
		if (dcut && frame.size() >= 2) check_roundtrip_cut(framing, msg, frame, dmis, who, log, 1 + (dcut - 1) % (frame.size() - 1));
	}
	void check_roundtrip_cut(int framing, const Bytes &msg, const Bytes &frame, unsigned dmis, const char *who, Log &log, size_t cut) {
		Bytes want;
		if (framing == ref::COMMAND) { want.push_back(0x04); want.push_back(' '); }
		want.insert(want.end(), msg.begin(), msg.end());
		Bytes got; std::string why;
		int rc = real_decode(framing, frame, dmis, got, log, why, cut);
		if (cut) { if (!rc) { stats->hit("probe:decoder_error_on_first_piece"); return; } stats->hit("probe:frame_decoded_in_two_pieces"); }
		if (rc != 1 || got != want) {
			Bytes refm; int v = ref::decode(framing, frame, refm);
			bool frame_ok = v == ref::WELL && refm == msg;
			std::string sig = std::string(strcmp(who, "python-client") ? "roundtrip" : "py-roundtrip");
			std::string how = cut ? " handed to the decoder in two pieces, the first of " + std::to_string(cut) + " bytes," : "";
			if (cut) sig += "-pieces";
			size_t d = 0; while (d < got.size() && d < want.size() && got[d] == want[d]) ++d;
			fail(sig.c_str(), "%s %s: message of %zu bytes came back as %zu bytes (first difference at %zu)%s%s; reference decoder says the frame%s %s",
			     who, ref::framing_name(framing), want.size(), got.size(), d, rc != 1 ? ": " : "", rc != 1 ? why.c_str() : "", how.c_str(),
			     frame_ok ? "is a correct encoding (decoder at fault)" : "does not encode the message (encoder at fault)");
		}
	}

	void check_state(const encode_state &es, size_t granted, const char *after) {
		if (es.done > granted || es.scratch > granted || es.done + es.scratch > granted)
			fail("state-bounds", "after %s: done=%zu scratch=%zu exceed granted window %zu", after, es.done, es.scratch, granted);
	}

	size_t last_used[16] = {0};
	void run_direct(const Plan &p, int framing, const Bytes &msg, unsigned mis, size_t inc, Bytes &frame, Log &log, Stats &st) {
		data_encoder_t enc = encoder_for(framing);
		encode_state es;
		size_t granted = (size_t) std::min<int64_t>(std::max<int64_t>(p.get("win0"), 0), 4096);
		// one allocation; only the granted prefix is addressable, so a write one byte
		// past the window is an AddressSanitizer report
		const size_t WCAP = 16384 + 4096 + 64;
		static Block wins[16];               // reused across runs: one per start alignment
		Block &win = wins[mis];
		if (!win.p) win.alloc(WCAP, mis);
		win.expose(WCAP);
		memset(win.p, 0xEE, last_used[mis] < granted ? granted : last_used[mis]);
		win.expose(granted);
		struct Track { size_t &g; size_t &slot; ~Track() { slot = g; } } track{granted, last_used[mis]};
		size_t pos = 0; bool finished = false;
		auto regrant = [&](size_t add) {
			if (granted + add > WCAP) fail("stall", "window grew beyond %zu bytes for a %zu byte message", WCAP, msg.size());
			ASAN_UNPOISON_MEMORY_REGION(win.p + granted, add);
			memset(win.p + granted, 0xEE, add);
			granted += add;
			win.expose(granted);
		};
		auto push = [&](size_t k) -> ssize_t {
			Block src(k, 0); memcpy(src.p, msg.data() + pos, k);
			struct iovec cobs, from; cobs.iov_base = win.p; cobs.iov_len = granted; from.iov_base = src.p; from.iov_len = k;
			size_t free_before = granted - es.done - es.scratch;
			ssize_t r; { Sut s; r = enc(&es, &cobs, &from); }
			log.ev("PUSH %zu -> %zd done=%zu scratch=%zu granted=%zu", k, r, es.done, es.scratch, granted);
			check_state(es, granted, "push");
			if (r > (ssize_t) k) fail("consumed-too-much", "encoder consumed %zd of %zu offered bytes", r, k);
			st.state(2, framing, (free_before > 2 ? 3 : free_before) * 8 + (r < 0 ? 0 : r == 0 ? 1 : (size_t) r < k ? 2 : 3));
			if (r < 0 || (size_t) r < k) st.hit("fault:window_full");
			if (free_before == 1 && es.scratch >= 222) st.hit("probe:block_full_one_free_byte");
			if (r > 0) pos += (size_t) r;
			return r;
		};
		auto term = [&]() -> ssize_t {
			struct iovec cobs; cobs.iov_base = win.p; cobs.iov_len = granted;
			size_t free_before = granted - es.done - es.scratch;
			ssize_t r; { Sut s; r = enc(&es, &cobs, 0); }
			log.ev("TERM -> %zd done=%zu scratch=%zu granted=%zu", r, es.done, es.scratch, granted);
			check_state(es, granted, "terminate");
			st.state(3, framing, (free_before > 2 ? 3 : free_before) * 4 + (r < 0 ? 0 : 1));
			if (r < 0) st.hit("fault:window_full");
			if (free_before == 0) st.hit("probe:terminate_with_full_window");
			if (r >= 0) finished = true;
			return r;
		};
		for (const Op &op : p.ops) {
			if (finished) break;
			if (op.kind == OP_PUSH) {
				size_t k = std::min<size_t>((size_t) std::max<int64_t>(op.a, 0), msg.size() - pos);
				if (!k) { log.ev("PUSH skipped"); continue; }
				st.hit("op:PUSH"); push(k);
			} else if (op.kind == OP_GRANT) {
				size_t a = (size_t) std::min<int64_t>(std::max<int64_t>(op.a, 1), 4096);
				if (granted + a > 16384) continue;
				st.hit("op:GRANT"); regrant(a); log.ev("GRANT %zu -> %zu", a, granted);
			} else {
				if (pos < msg.size()) { log.ev("TERM skipped (message pending)"); continue; }
				st.hit("op:TERM"); term();
			}
		}
		// fault-free drain: offer everything, grant `inc` more whenever the encoder cannot proceed
		size_t iter = 0, bound = 2 * (msg.size() + (msg.size() * 2 + 8) / inc) + 16;
		while (!finished) {
			if (++iter > bound)
				fail("stall", "%s encoder made no progress: %zu of %zu bytes consumed, window %zu bytes (done=%zu scratch=%zu) after %zu drain steps granting %zu bytes each",
				     ref::framing_name(framing), pos, msg.size(), granted, es.done, es.scratch, iter, inc);
			ssize_t r = pos < msg.size() ? push(msg.size() - pos) : term();
			if (r <= 0 && !finished) { regrant(inc); st.hit("drain:grant"); }
		}
		frame.assign(win.p, win.p + es.done);
	}

	void run_array(const Plan &p, int framing, const Bytes &msg, size_t inc, Bytes &frame, Log &log, Stats &st) {
		encode_array arr(encoder_for(framing));
		size_t pos = 0; bool finished = false, compacted_midway = false, dropped_once = false; size_t taken_bytes = 0; Bytes taken;
		// ---- an earlier message on the same array: encoded, taken through data(), consumed through shift()
		size_t prelude = (size_t) std::min<int64_t>(std::max<int64_t>(p.get("prelude"), 0), 2000); unsigned pf = (unsigned) p.get("preflags");
		if (prelude) {
			Bytes first(prelude); for (size_t i = 0; i < prelude; ++i) first[i] = framing == ref::COMMAND ? (uint8_t) ('a' + i % 26) : (uint8_t) ((i * 37 + 11) % 251 + ((i % 9) ? 1 : 0) * 0 + ((i % 13) == 5 ? 0 : 1));
			if (framing == ref::COMMAND) for (auto &b : first) if (!b) b = 'z';
			Block src(prelude, 0); memcpy(src.p, first.data(), prelude);
			bool ok = true;
			if (pf & 1) {
				// one message in two fragments
				size_t cut = prelude / 2; struct iovec cont; cont.iov_base = src.p + cut; cont.iov_len = prelude - cut;
				message m; m.base = src.p; m.used = cut; m.cont = &cont; m.clen = 1;
				{ Sut s; SUT_GUARD_ABORT(ok = arr.push(m)); }
				st.hit("op:PUSH_MESSAGE");
			} else {
				size_t off = 0; int guard = 0;
				while (off < prelude && ++guard < 4096) { ssize_t r; { Sut s; SUT_GUARD_ABORT(r = arr.push(prelude - off, src.p + off)); } if (r < 0) { ok = false; break; } off += (size_t) r; }
				if (off < prelude) ok = false;
			}
			if (!ok) fail("refused-valid", "%s: the first message of %zu bytes could not be pushed to an encode_array without any fault", ref::framing_name(framing), prelude);
			ssize_t tr; { Sut s; SUT_GUARD_ABORT(tr = arr.push(0, 0)); }
			if (tr < 0) fail("refused-valid", "%s: terminating the first message failed (%zd)", ref::framing_name(framing), tr);
			span<const uint8_t> d; { Sut s; d = arr.data(); }
			Bytes f1(d.begin(), d.end());
			log.ev("PRELUDE %zu bytes%s -> frame of %zu bytes", prelude, (pf & 1) ? " as two fragments" : "", f1.size());
			size_t z = 0; for (uint8_t b : f1) if (!b) ++z;
			if (f1.empty() || f1.back() != 0 || z != 1) fail("frame-zero", "%s frame of the first message (%zu bytes) has %zu zero bytes", ref::framing_name(framing), f1.size(), z);
			check_roundtrip(framing, first, f1, 0, "c-encoder (first message on the array)", log);
			// consume it; what follows must encode as if the array were fresh
			bool sh;
			if ((pf & 8) && f1.size() > 1 && !msg.empty()) {
				// half of the frame is taken, a copy of the array is made (it shares the buffer), the next message starts: the waiting half must
				// still be there, byte for byte, before it is taken as well
				size_t half = f1.size() / 2; bool s1; { Sut s; s1 = arr.shift(half); }
				if (!s1) fail("refused-valid", "consuming half of the finished frame was refused");
				encode_array *keep; { Sut s; keep = new encode_array(arr); }
				size_t k = std::min<size_t>(msg.size(), 1 + prelude % 7); Block src(k, 0); memcpy(src.p, msg.data(), k);
				ssize_t r; { Sut s; SUT_GUARD_ABORT(r = mpt_array_push(&arr, k, src.p)); }
				st.hit("op:PUSH_WHILE_SHARED");
				if (r < 0) fail("refused-valid", "%s: push of %zu bytes on an array whose buffer a copy shares was refused (%zd)", ref::framing_name(framing), k, r);
				pos += (size_t) r;
				span<const uint8_t> w; { Sut s; w = arr.data(); }
				size_t rest = f1.size() - half;
				if ((size_t) w.size() < rest || memcmp(w.begin(), f1.data() + half, rest)) fail("roundtrip", "%s: after a push on a shared buffer the %zu waiting bytes of the previous frame read differently (data() has %ld bytes)", ref::framing_name(framing), rest, (long) w.size());
				{ Sut s; sh = arr.shift(rest); delete keep; }
			}
			else if ((pf & 4) && f1.size() > 1) { { Sut s; sh = arr.shift(f1.size() / 2) && arr.shift(f1.size() - f1.size() / 2); } }
			else { Sut s; sh = arr.shift(f1.size()); }
			if (!sh) fail("refused-valid", "consuming the finished frame of %zu bytes was refused", f1.size());
			if (arr._state.done && !((pf & 8) && pos)) fail("state-bounds", "after consuming the only finished frame %zu finished bytes remain", arr._state.done);
			if ((pf & 2) && !(pf & 1)) { bool c; { Sut s; c = arr.shift(0); } log.ev("COMPACT -> %d", (int) c); st.hit("op:COMPACT"); }
			st.hit("op:CONSUME");
		}
		auto push = [&](size_t k, uint64_t failn) -> ssize_t {
			Block src(k, 0); if (k) memcpy(src.p, msg.data() + pos, k);
			ssize_t r;
			uint64_t fired;
			{ Sut s(failn); SUT_GUARD_ABORT(r = mpt_array_push(&arr, k, k ? src.p : 0)); fired = g.fired; }
			if (fired) st.hit("fault:allocfail");
			buffer *b = arr._d._buf.instance();
			size_t used = b ? b->_used : 0, size = b ? b->_size : 0;
			log.ev("APUSH %zu%s -> %zd done=%zu scratch=%zu used=%zu size=%zu", k, fired ? " allocfail" : "", r, arr._state.done, arr._state.scratch, used, size);
			if (arr._state.done + arr._state.scratch > used || used > size)
				fail("state-bounds", "array push: done=%zu scratch=%zu used=%zu size=%zu", arr._state.done, arr._state.scratch, used, size);
			if (r > (ssize_t) k) fail("consumed-too-much", "array push consumed %zd of %zu offered bytes", r, k);
			st.state(4, framing, (fired ? 4 : 0) + (r < 0 ? 0 : r == 0 ? 1 : (size_t) r < k ? 2 : 3));
			if (k && r > 0) pos += (size_t) r;
			if (!k && r >= 0) finished = true;
			if ((pf & 16) && framing != ref::COMMAND && k && r > 0 && !dropped_once && !((pf & 8) && prelude)) {
				// the message in progress is dropped: that succeeds while all of it is still in the array (it then starts again from its first byte),
				// and is refused, with nothing changed, once some of its finished blocks have been taken
				dropped_once = true;
				size_t take = (pf & 32) ? std::min<size_t>(arr._state.done, 1 + pos % 100) : 0; bool took = false;
				if (take) { span<const uint8_t> dd; { Sut s; dd = arr.data(); } if ((size_t) dd.size() >= take) taken.assign(dd.begin(), dd.begin() + take); { Sut s; took = arr.shift(take); } if (!took) taken.clear(); }
				encode_state before = arr._state;
				ssize_t d; { Sut s; SUT_GUARD_ABORT(d = mpt_array_push(&arr, 1, 0)); }
				buffer *b2 = arr._d._buf.instance(); size_t used2 = b2 ? b2->_used : 0;
				log.ev("ADROP after %zu bytes (%zu finished bytes taken) -> %zd done=%zu scratch=%zu used=%zu", pos, took ? take : (size_t) 0, d, arr._state.done, arr._state.scratch, used2);
				st.hit(took ? "op:DROP_AFTER_TAKE" : "op:DROP");
				if (arr._state.done + arr._state.scratch > used2) fail("state-bounds", "after a drop request: done=%zu scratch=%zu used=%zu", arr._state.done, arr._state.scratch, used2);
				if (took) {
					if (d >= 0) fail("abort-merged", "%s: a message whose first %zu finished bytes were already taken was reported as dropped", ref::framing_name(framing), take);
					if (arr._state.done != before.done || arr._state.scratch != before.scratch || arr._state._ctx != before._ctx) fail("state-bounds", "a refused drop changed the encoder state (done %zu -> %zu, scratch %zu -> %zu)", (size_t) before.done, (size_t) arr._state.done, (size_t) before.scratch, (size_t) arr._state.scratch);
					taken_bytes = take;
				} else {
					if (d < 0) fail("refused-valid", "%s: dropping a message of which nothing had been taken failed (%zd)", ref::framing_name(framing), d);
					if (arr._state.done || arr._state.scratch) fail("state-bounds", "after dropping the only message: done=%zu scratch=%zu", (size_t) arr._state.done, (size_t) arr._state.scratch);
					pos = 0;
				}
			}
			if (prelude && (pf & 2) && k && r > 0 && !compacted_midway) {
				// move the live part (finished data + open block) to the front while a message is in progress: nothing may change for the encoder
				compacted_midway = true;
				size_t live = arr._state.done + arr._state.scratch; buffer *b0 = arr._d._buf.instance(); Bytes before((const uint8_t *) (b0 + 1) + (b0->_used - live), (const uint8_t *) (b0 + 1) + b0->_used);
				bool c; { Sut s; SUT_GUARD_ABORT(c = arr.shift(0)); }
				buffer *b1 = arr._d._buf.instance(); size_t used1 = b1 ? b1->_used : 0;
				log.ev("COMPACT (message in progress, %zu live bytes) -> %d used=%zu", live, (int) c, used1);
				st.hit("op:COMPACT_MIDWAY");
				if (arr._state.done + arr._state.scratch != live || used1 < live) fail("state-bounds", "compaction changed the encoder state: %zu live bytes before, done=%zu scratch=%zu used=%zu after", live, arr._state.done, arr._state.scratch, used1);
				if (live && memcmp((const uint8_t *) (b1 + 1) + (used1 - live), before.data(), live)) fail("roundtrip", "compaction of the array changed the %zu bytes of the message in progress", live);
			}
			return r;
		};
		for (const Op &op : p.ops) {
			if (finished) break;
			uint64_t failn = op.fault == FL_ALLOC ? (uint64_t) std::max<int64_t>(op.fa, 1) : 0;
			if (op.kind == OP_PUSH) {
				size_t k = std::min<size_t>((size_t) std::max<int64_t>(op.a, 0), msg.size() - pos);
				if (!k) continue;
				st.hit("op:PUSH"); push(k, failn);
			} else if (op.kind == OP_TERM) {
				if (pos < msg.size()) continue;
				st.hit("op:TERM"); push(0, failn);
			}
		}
		size_t iter = 0, bound = 2 * msg.size() + 16;
		while (!finished) {
			if (++iter > bound) fail("stall", "array push made no progress: %zu of %zu bytes consumed after %zu fault-free calls", pos, msg.size(), iter);
			if (pos < msg.size()) push(msg.size() - pos, 0); else push(0, 0);
		}
		buffer *b = arr._d._buf.instance();
		size_t done = arr._state.done;
		if (!b || done + arr._state.scratch > b->_used) fail("state-bounds", "finished size %zu beyond buffer", done);
		// the finished data sits in front of the open block at the end of the used area (consumed frames may precede it)
		const uint8_t *base = (const uint8_t *) (b + 1) + (b->_used - done - arr._state.scratch);
		frame.assign(base, base + done);
		if (taken_bytes) frame.insert(frame.begin(), taken.begin(), taken.end());      // the front of the frame was taken while the message was in progress
		if (prelude) { span<const uint8_t> d; { Sut s; d = arr.data(); } if (d.size() != (long) done || (done && memcmp(d.begin(), base, done))) fail("state-bounds", "encode_array::data() does not describe the finished frame"); }
	}
};

namespace sim { World *the_world() { static EncWorld w; return &w; } }
