// world `reply` (C12): request ids through message headers of every width, and
// histories on a deferrable reply context: arm / reply / defer / deferred reply /
// release in any order over up to two outstanding requests, with a transport
// (the send callback) that accepts or rejects per plan.
#include "worlds/common.hpp"

using namespace sim;
using namespace mpt;

enum { OP_ID, OP_ARM, OP_REPLY, OP_DEFER, OP_DREPLY, OP_DRELEASE, OP_ADDREF, OP_UNREF, OP_NEWCTX };
static const char *const OPS[] = {"ID", "ARM", "REPLY", "DEFER", "DEFERRED_REPLY", "RELEASE_HANDLE", "ADDREF_CTX", "UNREF_CTX", "NEW_CTX", 0};
enum { FL_NONE, FL_ALLOC, FL_REJECT };
static const char *const FAULTS[] = {"none", "allocfail", "reject", 0};

struct Req { uint64_t id; unsigned width; int accepted = 0; int sends = 0; bool transport_lost = false; bool closed = false; };
struct Transport {
	std::vector<Req> reqs;
	int reject_next = 0;     // number of upcoming send calls to reject
	uint64_t calls = 0;
	Log *log = 0;
};
static Transport *TR;

static int transport_send(void *ptr, const reply_data *rd, const message *msg) {
	Harness h;
	Transport &t = *TR; ++t.calls;
	if (ptr != (void *) &t) { pend("wrong-target", "send callback received a foreign user pointer"); return -1; }
	if (!rd) { pend("bad-send", "send callback without reply data"); return -1; }
	uint64_t id = 0; unsigned w = rd->len;
	for (unsigned i = 0; i < w; ++i) id = (id << 8) | (i == 0 ? (rd->val[0] & 0x7f) : rd->val[i]);
	bool marked = w && (rd->val[0] & 0x80);
	size_t mlen = 0; if (msg) { message tmp = *msg; mlen = mpt_message_length(&tmp); }
	t.log->ev("    send id=%llx width=%u marked=%d %s%zu", (unsigned long long) id, w, (int) marked, msg ? "message bytes=" : "default reply ", mlen);
	Req *r = 0;
	for (auto &q : t.reqs) if (q.id == id && q.width == w && !q.closed) { r = &q; break; }
	if (!r) { for (auto &q : t.reqs) if (q.id == id && q.width == w) { r = &q; break; } }
	if (!r) { pend("foreign-id", "reply sent for id %llx (width %u) which no outstanding request carries", (unsigned long long) id, w); return -1; }
	++r->sends;
	if (!marked) pend("not-marked", "reply for id %llx is not marked as a reply (top bit of the first id byte clear)", (unsigned long long) id);
	if (r->accepted) pend("second-reply", "transport is offered a second reply for id %llx after it accepted one", (unsigned long long) id);
	if (t.reject_next > 0) { --t.reject_next; return -0x10; }
	++r->accepted;
	return 0;
}

struct ReplyWorld : World {
	const char *name() const override { return "reply"; }
	const char *const *opnames() const override { return OPS; }
	const char *const *faultnames() const override { return FAULTS; }
	const char *components_json() const override {
		return "{\"real\":[\"mpt_message_id2buf\",\"mpt_message_buf2id\",\"mpt_reply_deferrable (context, conversion to reply/reply-data pointers, reply, defer, deferred handle, unref/addref)\",\"mpt_reply_set\",\"mpt_context_reply\"],"
		       "\"stub\":[\"transport = send callback accepting or rejecting per plan\",\"allocator (ledger + n-th allocation fails)\",\"per-request bookkeeping (accepted at most once, id, reply mark)\"]}";
	}
	void gen(Rng &r, Plan &p, int tier) override {
		p.set("ctxlen", r.chance(1, 5) ? r.range(9, 20) : r.range(1, 8));
		int nops = (int) r.range(1, tier ? 80 : 40);
		bool allocf = r.chance(1, 4), rej = r.chance(1, 2);
		for (int i = 0; i < nops; ++i) {
			Op op;
			static const int kinds[] = {OP_ID, OP_ID, OP_ARM, OP_ARM, OP_ARM, OP_REPLY, OP_REPLY, OP_REPLY, OP_DEFER, OP_DEFER, OP_DREPLY, OP_DREPLY, OP_DRELEASE, OP_ADDREF, OP_UNREF, OP_UNREF, OP_NEWCTX};
			op.kind = r.pick(kinds);
			op.a = (int64_t) r.next();            // id bits
			op.b = r.below(10) | (r.below(8) << 8); // width, boundary selector
			op.c = r.below(8);
			if (rej && r.chance(1, 3)) { op.fault = FL_REJECT; op.fa = r.range(1, 2); }
			else if (allocf && r.chance(1, 3)) { op.fault = FL_ALLOC; op.fa = 1; }
			p.ops.push_back(op);
		}
	}
	static uint64_t pick_id(int64_t bits, unsigned w, unsigned sel) {
		uint64_t lim = w == 0 ? 0 : (w >= 8 ? 0x7fffffffffffffffull : ((1ull << (8 * w - 1)) - 1)); // largest id that fits w bytes with the mark bit clear
		switch (sel) {
		case 0: return 0; case 1: return 1; case 2: return lim; case 3: return lim + 1;
		case 4: return w >= 8 ? ~0ull : ((1ull << (8 * w)) - 1);
		case 5: return w >= 8 ? ~0ull - 1 : (1ull << (8 * w)) + (((uint64_t) bits >> 40) % 3 == 0 ? 0 : ((uint64_t) bits >> 8) % ((1ull << (w ? 8 * (w - 1) : 0)) + 1)); // just beyond the width
		case 6: return w >= 7 ? (uint64_t) bits : (uint64_t) bits >> (64 - 8 * (w + 1));                                   // random, one byte wider than the header
		default: return (uint64_t) bits >> (w >= 8 ? 0 : 64 - 8 * (w ? w : 1));
		}
	}
	void exec(const Plan &p, Log &log, Stats &st) override {
		Transport T; T.log = &log; TR = &T;
		size_t ctxlen = (size_t) std::min<int64_t>(std::max<int64_t>(p.get("ctxlen", 4), 1), 64);
		metatype *ctx = 0; int ctx_refs = 0; bool transport_attached = true;
		struct Handle { reply_context_detached *h; size_t req; };
		std::vector<Handle> handles;
		ssize_t armed = -1; // index of the request currently armed on the context
		auto new_ctx = [&](uint64_t failn) {
			{ Sut s(failn); ctx = mpt_reply_deferrable(ctxlen, transport_send, &T); if (g.fired) st.hit("fault:allocfail"); }
			ctx_refs = ctx ? 1 : 0; transport_attached = true; armed = -1;
			log.ev("NEW_CTX idlen=%zu -> %s", ctxlen, ctx ? "ok" : "null");
		};
		auto get_rc = [&]() -> reply_context * {
			reply_context *rc = 0; int r; { Sut s; r = ctx->convert(TypeReplyPtr, &rc); }
			if (r < 0 || !rc) fail("context-broken", "reply context no longer converts to its reply interface (%d)", r);
			return rc;
		};
		auto close_req = [&](size_t i, bool answered_expected) {
			Req &q = T.reqs[i]; q.closed = true;
			if (q.accepted > 1) fail("second-reply", "request %llx got %d accepted replies", (unsigned long long) q.id, q.accepted);
			if (answered_expected && !q.transport_lost && q.accepted != 1)
				fail("no-reply", "request %llx (width %u) is finished but the transport accepted %d replies (sends offered: %d)", (unsigned long long) q.id, q.width, q.accepted, q.sends);
			if (q.transport_lost && q.accepted) {}
		};
		new_ctx(0);
		for (const Op &op : p.ops) {
			uint64_t failn = op.fault == FL_ALLOC ? 1 : 0;
			T.reject_next = op.fault == FL_REJECT ? (int) std::max<int64_t>(op.fa, 1) : 0;
			unsigned w = (unsigned) (op.b & 0xff) % 10, sel = (unsigned) ((op.b >> 8) & 0xff) % 8;
			int outcome = 0;
			st.hit(std::string("op:") + OPS[op.kind]);
			switch (op.kind) {
			case OP_ID: {
				uint64_t id = pick_id(op.a, w, sel);
				Block buf(w, 0); memset(buf.p, 0xEE, w);
				int rc; { Sut s; rc = mpt_message_id2buf(id, buf.p, w); }
				bool fits = w == 0 ? id == 0 : w >= 9 ? true : w == 8 ? id < (1ull << 63) : id < (1ull << (8 * w - 1));
				log.ev("ID %llx width %u -> %d", (unsigned long long) id, w, rc);
				if (!fits) { if (rc >= 0) fail("id-accepted", "id %llx written into %u header bytes (does not fit with the reply mark clear)", (unsigned long long) id, w); outcome = 0; break; }
				if (rc < 0) fail("id-refused", "id %llx refused for %u header bytes (%d)", (unsigned long long) id, w, rc);
				uint64_t back = ~id; int rb; { Sut s; rb = mpt_message_buf2id(buf.p, w, &back); }
				if (rb < 0) fail("id-roundtrip", "id %llx written to %u bytes cannot be read back (%d)", (unsigned long long) id, w, rb);
				if (back != id) fail("id-roundtrip", "id %llx written to %u bytes reads back as %llx", (unsigned long long) id, w, (unsigned long long) back);
				outcome = 1;
				break;
			}
			case OP_ARM: {
				if (!ctx || armed >= 0) break;
				unsigned aw = 1 + w % (unsigned) std::min<size_t>(ctxlen, 8);
				uint64_t id = pick_id(op.a, aw, sel == 3 || sel == 4 || sel == 5 || sel == 6 ? 7 : sel);
				// ids of outstanding requests are unique (the requester reserves them)
				bool dup = false; for (auto &q : T.reqs) if (!q.closed && q.id == id && q.width == aw) dup = true;
				if (dup) break;
				uint8_t idb[8]; int rc; { Sut s; rc = mpt_message_id2buf(id, idb, aw); }
				if (rc < 0) break;
				reply_data *rd = 0; int cr; { Sut s; cr = ctx->convert(TypeReplyDataPtr, &rd); }
				if (cr < 0 || !rd) fail("context-broken", "context does not hand out its reply data (%d)", cr);
				int sr; { Sut s; sr = mpt_reply_set(rd, aw, idb); }
				log.ev("ARM id=%llx width=%u -> %d", (unsigned long long) id, aw, sr);
				if (sr < 0) fail("arm-refused", "arming with a %u byte id refused on a context for %zu byte ids", aw, ctxlen);
				Req q; q.id = id; q.width = aw; q.transport_lost = !transport_attached; T.reqs.push_back(q); armed = (ssize_t) T.reqs.size() - 1;
				get_rc(); // arming must leave the context itself intact
				outcome = 1;
				break;
			}
			case OP_REPLY: {
				if (!ctx) break;
				reply_context *rc = get_rc();
				uint8_t body[3] = {0x01, 0x00, (uint8_t) op.c};
				message m; m.base = body; m.used = sizeof body; m.cont = 0; m.clen = 0;
				uint64_t before = T.calls;
				int r; { Sut s; r = rc->reply(&m); }
				check_pending();
				log.ev("REPLY -> %d (armed %zd, sends %llu)", r, armed, (unsigned long long) (T.calls - before));
				if (armed < 0) {
					if (T.calls != before) fail("second-reply", "reply without an armed request reached the transport");
					if (r >= 0) fail("reply-accepted", "reply accepted although no request is armed");
					outcome = 0; break;
				}
				Req &q = T.reqs[(size_t) armed];
				if (q.accepted) { close_req((size_t) armed, true); armed = -1; if (r < 0) fail("reply-lost", "transport accepted the reply but the context reports %d", r); outcome = 2; }
				else if (q.transport_lost) { if (r >= 0) { close_req((size_t) armed, false); armed = -1; } outcome = 3; }
				else { if (r >= 0) fail("reply-lost", "context reports success but the transport accepted nothing"); outcome = 1; }
				break;
			}
			case OP_DEFER: {
				if (!ctx) break;
				reply_context *rc = get_rc();
				reply_context_detached *h; uint64_t fired; { Sut s(failn); h = rc->defer(); fired = g.fired; }
				if (fired) st.hit("fault:allocfail");
				log.ev("DEFER%s -> %s (armed %zd)", fired ? " allocfail" : "", h ? "handle" : "null", armed);
				if (armed < 0) { if (h) fail("defer-unarmed", "defer handed out a handle although no request is armed"); break; }
				if (!h) { if (!fired) fail("defer-refused", "defer of an armed request refused"); break; }
				handles.push_back(Handle{h, (size_t) armed}); armed = -1; outcome = 1;
				break;
			}
			case OP_DREPLY: case OP_DRELEASE: {
				if (handles.empty()) break;
				size_t hi = (size_t) op.c % handles.size();
				Handle H = handles[hi]; Req &q = T.reqs[H.req];
				uint8_t body[2] = {0x01, 0x07};
				message m; m.base = body; m.used = sizeof body; m.cont = 0; m.clen = 0;
				bool release = op.kind == OP_DRELEASE;
				uint64_t before = T.calls;
				int r; { Sut s; r = H.h->reply(release ? 0 : &m); }
				check_pending();
				log.ev("%s handle of %llx -> %d (sends %llu)", OPS[op.kind], (unsigned long long) q.id, r, (unsigned long long) (T.calls - before));
				bool consumed = release || r >= 0;
				if (!release && r >= 0 && !q.accepted && !q.transport_lost && transport_attached) fail("reply-lost", "deferred reply reports success but the transport accepted nothing");
				if (consumed) {
					handles.erase(handles.begin() + hi);
					// released unanswered while the transport rejects: nothing more can be demanded of this request
					bool lost = q.transport_lost || !transport_attached || (release && !q.accepted && T.calls != before);
					if (lost) q.transport_lost = true;
					close_req(H.req, true);
				}
				outcome = consumed ? 1 : 0;
				break;
			}
			case OP_ADDREF: {
				if (!ctx || ctx_refs > 3) break;
				uintptr_t r; { Sut s; r = ctx->addref(); }
				log.ev("ADDREF_CTX -> %lu", (unsigned long) r);
				if (!r) fail("addref-refused", "reference on a live context refused");
				++ctx_refs; outcome = 1;
				break;
			}
			case OP_UNREF: {
				if (!ctx) break;
				uint64_t before = T.calls;
				bool last = ctx_refs == 1;
				bool others = !handles.empty(); // deferred handles keep the context memory alive
				{ Sut s; ctx->unref(); }
				check_pending();
				--ctx_refs;
				log.ev("UNREF_CTX (refs left %d, handles %zu, sends %llu)", ctx_refs, handles.size(), (unsigned long long) (T.calls - before));
				if (!last) {
					// an owner went away while others remain: the library detaches the transport
					transport_attached = false;
					for (auto &q : T.reqs) if (!q.closed) q.transport_lost = true;
				} else {
					if (armed >= 0) {
						Req &q = T.reqs[(size_t) armed];
						if (!q.transport_lost && !others && T.reject_next == 0 && op.fault != FL_REJECT && q.accepted != 1)
							fail("no-default-reply", "context released with request %llx armed and unanswered: transport accepted %d replies", (unsigned long long) q.id, q.accepted);
						if (others || op.fault == FL_REJECT) q.transport_lost = true;
						close_req((size_t) armed, !q.transport_lost); armed = -1;
					}
					if (others) { transport_attached = false; for (auto &q : T.reqs) if (!q.closed) q.transport_lost = true; }
					ctx = 0;
				}
				outcome = last ? 2 : 1;
				break;
			}
			case OP_NEWCTX: {
				if (ctx || !handles.empty()) break;
				new_ctx(failn); outcome = ctx ? 1 : 0;
				break;
			}
			}
			T.reject_next = 0;
			st.state(700 + op.kind, (armed >= 0 ? 8 : 0) + (handles.size() > 2 ? 2 : handles.size()) * 2 + (transport_attached ? 1 : 0) + 16 * (ctx ? std::min(ctx_refs, 3) : 0), outcome + 8 * (op.fault));
		}
		// teardown: release handles, then the context; afterwards every request is accounted for
		T.reject_next = 0;
		while (!handles.empty()) {
			Handle H = handles.back(); handles.pop_back();
			{ Sut s; H.h->reply(0); }
			check_pending();
			Req &q = T.reqs[H.req];
			if (!transport_attached) q.transport_lost = true;
			close_req(H.req, true);
		}
		while (ctx && ctx_refs > 0) {
			bool last = ctx_refs == 1;
			{ Sut s; ctx->unref(); }
			check_pending();
			--ctx_refs;
			if (!last) { transport_attached = false; for (auto &q : T.reqs) if (!q.closed) q.transport_lost = true; }
			else { if (armed >= 0) { close_req((size_t) armed, true); armed = -1; } ctx = 0; }
		}
		for (size_t i = 0; i < T.reqs.size(); ++i) if (!T.reqs[i].closed) fail("request-unaccounted", "request %llx neither answered nor released at the end", (unsigned long long) T.reqs[i].id);
		if (ledger_live()) fail("leak", "%zu block(s) allocated after context and handles were released: %s", ledger_live(), ledger_describe().c_str());
	}
};

namespace sim { World *the_world() { static ReplyWorld w; return &w; } }
