// world `reply` (C12): request ids through message headers of every width, and
// histories on a deferrable reply context: arm / reply / defer / deferred reply /
// release in any order over up to two outstanding requests, with a transport
// (the send callback) that accepts or rejects per plan.
#include "worlds/common.hpp"
#include "kernel/simio.hpp"
#define protected public
#define private public
#include "io.h"
#undef protected
#undef private
#include <fcntl.h>
#include <poll.h>
#include <unistd.h>

using namespace sim;
using namespace mpt;

enum { OP_ID, OP_ARM, OP_REPLY, OP_DEFER, OP_DREPLY, OP_DRELEASE, OP_ADDREF, OP_UNREF, OP_NEWCTX, OP_REQ, OP_DELIVER, OP_SERVE, OP_FLUSH, OP_DREPLY2, OP_SYNC, OP_REASSIGN };
static const char *const OPS[] = {"ID", "ARM", "REPLY", "DEFER", "DEFERRED_REPLY", "RELEASE_HANDLE", "ADDREF_CTX", "UNREF_CTX", "NEW_CTX", "REQUEST", "DELIVER", "SERVE", "FLUSH", "LATE_REPLY", "SYNC", "REASSIGN", 0};
enum { FL_NONE, FL_ALLOC, FL_REJECT, FL_SHORT, FL_EAGAIN, FL_DROP, FL_DUP, FL_SENDFAIL };
static const char *const FAULTS[] = {"none", "allocfail", "reject", "short", "eagain", "drop", "duplicate", "sendfail", 0};

struct Req { uint64_t id; unsigned width; int accepted = 0; int sends = 0; bool transport_lost = false; bool closed = false; };
struct Transport {
	std::vector<Req> reqs;
	int reject_next = 0;     // number of upcoming send calls to reject
	uint64_t calls = 0;
	Log *log = 0;
	Stats *st = 0;
};
static Transport *TR;

static int transport_send(void *ptr, const reply_data *rd, const message *msg) {
	Harness h;
	Transport &t = *TR; ++t.calls;
	if (ptr != (void *) &t) { pend("wrong-target", "send callback received a foreign user pointer"); return -1; }
	if (!rd) { pend("bad-send", "send callback without reply data"); return -1; }
	uint64_t id = 0; unsigned w = rd->len;
	for (unsigned i = 0; i < w; ++i) id = (id << 8) | (i == 0 ? (rd->val[0] & 0x7f) : rd->val[i]);
	bool marked = w && (rd->val[0] & 0x80);
	size_t mlen = 0; if (msg) { message tmp = *msg; mlen = mpt_message_length(&tmp); }
	t.log->ev("    send id=%llx width=%u marked=%d %s%zu", (unsigned long long) id, w, (int) marked, msg ? "message bytes=" : "default reply ", mlen);
	Req *r = 0;
	for (auto &q : t.reqs) if (q.id == id && q.width == w && !q.closed) { r = &q; break; }
	if (!r) { for (auto &q : t.reqs) if (q.id == id && q.width == w) { r = &q; break; } }
	if (!r) { pend("foreign-id", "reply sent for id %llx (width %u) which no outstanding request carries", (unsigned long long) id, w); return -1; }
	++r->sends;
	if (!marked) pend("not-marked", "reply for id %llx is not marked as a reply (top bit of the first id byte clear)", (unsigned long long) id);
	if (r->accepted) pend("second-reply", "transport is offered a second reply for id %llx after it accepted one", (unsigned long long) id);
	if (t.reject_next > 0) { --t.reject_next; if (t.st) t.st->hit("fault:send_rejected"); return -0x10; }
	++r->accepted;
	return 0;
}

static void *CCp;

// allocation fault attached to an op: fa 1..15 = the fa-th allocation of the op fails once; fa >= 17 = every allocation from the (fa-16)-th on fails
struct AllocFault { uint64_t n; bool from; };
static AllocFault alloc_fault(const Op &op, int fl_alloc) {
	AllocFault a = {0, false};
	if (op.fault != fl_alloc) return a;
	if (op.fa >= 17) { a.n = (uint64_t) (op.fa - 16); a.from = true; } else a.n = (uint64_t) std::max<int64_t>(op.fa, 1);
	return a;
}

struct ReplyWorld : World {
	ReplyWorld() {
		// process-global state created on first use (the input metatype registers itself, type tables) comes into being here, outside any run
		mpt_input_type_traits();
		input *in = mpt_output_remote(); if (in) { object *o = 0; output *u = 0; in->convert(TypeObjectPtr, &o); in->convert(TypeOutputPtr, &u); in->convert(0, 0); in->unref(); }
	}
	const char *name() const override { return "reply"; }
	const char *const *opnames() const override { return OPS; }
	const char *const *faultnames() const override { return FAULTS; }
	const char *components_json() const override {
		return "{\"real\":[\"mpt_message_id2buf\",\"mpt_message_buf2id\",\"mpt_reply_deferrable (context, conversion to reply/reply-data pointers, reply, defer, deferred handle, unref/addref)\",\"mpt_reply_set\",\"mpt_context_reply\"],"
		       "\"real (layer L1)\":[\"mpt_stream_input: next (mpt_stream_poll), dispatch (mpt_stream_dispatch, id header split, reply context, default reply), mpt_stream_reply, encoder and decoder queues, mpt_stream_flush\"],"
		       "\"stub (layer L1)\":[\"requester: reference COBS encoder/decoder, request table\",\"descriptor pair: simulated channels with segment cuts, short and EAGAIN writes\"],"
		       "\"real (layer L2)\":[\"struct connection with stream backend: mpt_connection_await, mpt_connection_push, mpt_connection_dispatch (streamWrapper, replyConnection, deferrable context), mpt_stream_sync, mpt_stream_poll/flush/push/reply, mpt_command_reserve/get/clear, mpt_connection_fini\"],"
		       "\"stub (layer L2)\":[\"connection assembled by the harness as mpt_connection_open does after mpt_connect; out._idlen written directly\",\"descriptor pair: simulated pipes of capacity 5..4096\"],"
		       "\"real (layer L3)\":[\"mpt_output_remote object through its input/object/output interfaces: remoteNext, remoteDispatch (mpt_connection_dispatch datagram path), remotePush, remoteAwait, remoteSync, mpt_connection_assign, mpt_outdata_push/recv/reply\"],"
		       "\"stub (layer L3)\":[\"connected datagram socket pair behind recvmsg/sendmsg/sendto/poll/dup/getsockopt; delivery order, loss and duplication decided by the plan\",\"out._idlen written directly through the layout of the private out_data\"],"
		       "\"real (layer L4)\":[\"C++ io::stream::input: await, push, sync, next, dispatch (dispatch::process), command::array reserve/handler\",\"responder: connection as in L2\"],"
		       "\"stub (layer L4)\":[\"io::stream attached to the simulated descriptor through mpt_stream_dopen on its stream member; _idlen written directly (set_property refuses the name idlen)\"],"
		       "\"stub\":[\"transport = send callback accepting or rejecting per plan\",\"allocator (ledger + n-th allocation fails)\",\"per-request bookkeeping (accepted at most once, id, reply mark)\"]}";
	}
	void gen(Rng &r, Plan &p, int tier) override {
		// VERIF_ONLY_LAYER=n (experiments only, never set by bin/check): every plan is of that layer, to measure what one layer alone catches
		static const char *only = getenv("VERIF_ONLY_LAYER");
		if (only) { unsigned l = (unsigned) atoi(only); if (l == 1) gen_stream(r, p, tier); else if (l == 2) gen_conn(r, p, tier); else if (l == 3) gen_dgram(r, p, tier); else if (l == 4) { gen_conn(r, p, tier); p.set("layer", 4); } if (l >= 1 && l <= 4) return; }
		if (r.chance(1, 3)) { unsigned l = (unsigned) r.below(7); if (l < 2) gen_stream(r, p, tier); else if (l < 4) gen_conn(r, p, tier); else if (l < 6) gen_dgram(r, p, tier); else { gen_conn(r, p, tier); p.set("layer", 4); } return; }
		p.set("layer", 0);
		p.set("ctxlen", r.chance(1, 5) ? r.range(9, 20) : r.range(1, 8));
		int nops = (int) r.range(1, tier ? 80 : 40);
		bool allocf = r.chance(1, 4), rej = r.chance(1, 2);
		for (int i = 0; i < nops; ++i) {
			Op op;
			static const int kinds[] = {OP_ID, OP_ID, OP_ARM, OP_ARM, OP_ARM, OP_REPLY, OP_REPLY, OP_REPLY, OP_DEFER, OP_DEFER, OP_DREPLY, OP_DREPLY, OP_DRELEASE, OP_ADDREF, OP_UNREF, OP_UNREF, OP_NEWCTX};
			op.kind = r.pick(kinds);
			op.a = (int64_t) r.next();            // id bits
			op.b = r.below(10) | (r.below(8) << 8); // width, boundary selector
			op.c = r.below(8);
			if (rej && r.chance(1, 3)) { op.fault = FL_REJECT; op.fa = r.range(1, 2); }
			else if (allocf && r.chance(1, 3)) { op.fault = FL_ALLOC; op.fa = 1; }
			p.ops.push_back(op);
		}
	}
	// ---- layer L1: a requester node and a responder built from the real mpt_stream_input on a simulated descriptor pair
	void gen_stream(Rng &r, Plan &p, int tier) {
		p.set("layer", 1);
		p.set("idlen", r.range(1, 4));
		p.set("framing", r.below(4));
		static const int caps[] = {3, 16, 64, 4096};
		p.set("chancap", r.pick(caps));
		int nops = (int) r.range(1, tier ? 80 : 40); bool iof = r.chance(1, 2);
		// pressure: a pipe that takes three bytes at a time, many requests with short answers: the write queue fills up and has to grow
		// in the middle of one of them (in its id header, in its body, in its terminator), and that is where the allocation faults are aimed
		bool pressure = r.chance(1, 3);
		if (pressure) { p.set("chancap", 3); p.set("maxreq", 48); nops = (int) r.range(40, 140); iof = true; }
		for (int i = 0; i < nops; ++i) {
			Op op; unsigned k = (unsigned) r.below(12);
			op.kind = k < 4 ? OP_REQ : k < 7 ? OP_DELIVER : k < 10 ? OP_SERVE : OP_FLUSH;
			if (pressure && op.kind == OP_FLUSH && r.chance(2, 3)) op.kind = OP_REQ;
			op.a = (int64_t) r.next(); op.b = r.below(6) | (r.below(6) << 8); op.c = r.chance(1, 3) ? 1 : r.chance(1, 2) ? 1000000 : r.range(1, 40);
			if (pressure && op.kind == OP_REQ) { op.b = 3 | (r.below(r.chance(1, 8) ? 5 : 4) << 8); if (r.chance(1, 2)) op.c = 0; }
			if (iof && op.kind == OP_FLUSH && r.chance(1, 2)) { op.fault = r.chance(1, 2) ? FL_SHORT : FL_EAGAIN; op.fa = r.range(1, 5); }
			if (iof && op.kind == OP_SERVE && r.chance(1, pressure ? 2 : 4)) { op.fault = FL_ALLOC; op.fa = (pressure ? r.range(1, 2) : r.range(1, 4)) + (r.chance(1, 3) ? 16 : 0); }
			p.ops.push_back(op);
		}
		p.set("rdwr", r.chance(1, 2));         // the input is opened read/write the way the library's own callers do (RdWr | Buffer), or with the write flag as well
		p.set("discards", r.chance(1, 6));     // some serve ops dispatch without handler (op.a bits 8..11 == 3)
		p.set("varlong", r.chance(1, 2));     // long replies of 150..749 bytes: the point where the write queue has to grow falls anywhere in a later reply
	}
	struct SReq { uint64_t id; int behaviour; int replies = 0; int handled = 0; bool faulted = false; Bytes payload; size_t longlen = 700; bool is_reply = false; };
	struct Responder { std::vector<SReq> *reqs; unsigned idlen; Log *log; uint64_t calls = 0; };
	static int responder_handler(void *arg, event *ev) {
		Harness h;
		Responder &R = *(Responder *) arg; ++R.calls;
		if (!ev) return 0;
		if (!ev->msg) { pend("bad-event", "stream input dispatched an event without message"); return 0; }
		message m = *ev->msg; size_t len = mpt_message_length(&m); Bytes body(len); mpt_message_read(&m, len, body.data());
		// which request is this? payloads are unique
		SReq *q = 0; for (auto &r : *R.reqs) if (r.payload == body && !r.handled) { q = &r; break; }
		if (!q) { for (auto &r : *R.reqs) if (r.payload == body) { q = &r; break; } }
		if (!q) { pend("invented", "responder received a request nobody sent (%zu bytes)", len); return 0; }
		if (q->handled) { pend("duplicate-request", "request %llx dispatched twice", (unsigned long long) q->id); return 0; }
		q->handled = 1;
		R.log->ev("    handle request id=%llx behaviour=%d reply-context=%s", (unsigned long long) q->id, q->behaviour, ev->reply ? "yes" : "no");
		if (q->is_reply) {
			// a frame marked as reply: handed over with the id it answers, never with a reply context (a reply is not answered)
			if (ev->reply) pend("reply-context", "a frame marked as reply (id %llx) was dispatched with a reply context", (unsigned long long) q->id);
			else if (ev->id != q->id) pend("wrong-id", "reply frame for id %llx was dispatched as event id %llx", (unsigned long long) q->id, (unsigned long long) ev->id);
			return 0;
		}
		if ((q->id != 0) != (ev->reply != 0)) { pend("reply-context", "request with id %llx %s a reply context", (unsigned long long) q->id, ev->reply ? "got" : "did not get"); return 0; }
		if (!ev->reply) return 0;
		switch (q->behaviour) {
		case 1: { Reenter s; mpt_context_reply(ev->reply, 0, "%s", "done"); } return 0;
		case 2: { int r1, r2; { Reenter s; r1 = mpt_context_reply(ev->reply, 0, "%s", "first"); r2 = mpt_context_reply(ev->reply, 1, "%s", "second"); }
			if (r1 >= 0 && r2 >= 0) pend("second-reply", "two explicit replies to request %llx were both accepted", (unsigned long long) q->id); return 0; }
		case 4: { Bytes b = {(uint8_t) msgtype::Answer, 0, 'l', 'o', 'n', 'g'}; while (b.size() < q->longlen) b.push_back((uint8_t) ('a' + b.size() % 23));     // larger than the initial write queue
			message m; m.base = b.data(); m.used = b.size(); m.cont = 0; m.clen = 0; { Reenter s; ev->reply->reply(&m); } return 0; }
		case 3: return -3;      // handler fails without answering: the default reply carries the error
		default: return 0;      // handler succeeds without answering: default reply
		}
	}
	void exec_stream(const Plan &p, Log &log, Stats &st) {
		unsigned idlen = (unsigned) std::min<int64_t>(std::max<int64_t>(p.get("idlen", 2), 1), 8);
		int framing = (int) p.get("framing") & 3;
		size_t chancap = (size_t) std::min<int64_t>(std::max<int64_t>(p.get("chancap", 4096), 1), 1 << 20);
		int up = simio::new_chan(1 << 20), down = simio::new_chan(chancap);     // requester -> responder, responder -> requester
		int sfd = simio::new_fd(up, down, O_RDWR | O_NONBLOCK);
		static const int codes[] = {EncodingCobs, EncodingCobsInline, EncodingCobs | EncodingCompress, EncodingCobsInline | EncodingCompress};
		input *in; { socket sk; sk._id = sfd; { Sut s; in = mpt_stream_input(&sk, (p.get("rdwr") ? stream::RdWr : stream::RdWr | stream::Write) | stream::Buffer, codes[framing], idlen); } sk._id = -1; }
		if (!in) fail("setup", "mpt_stream_input failed");
		log.ev("reply L1 idlen=%u framing=%s chancap=%zu", idlen, ref::framing_name(framing), chancap);
		st.hit("layer:L1");
		std::vector<SReq> reqs; Responder R{&reqs, idlen, &log};
		Bytes reply_stream; uint32_t serial = 1;
		auto collect = [&]() { simio::Chan *c = simio::chan(down); simio::deliver(down, 1 << 20); while (!c->avail.empty()) { reply_stream.push_back(c->avail.front()); c->avail.pop_front(); } };
		auto judge_replies = [&](bool final) {
			// every complete frame on the way back is a reply to exactly one request
			size_t b = 0; std::map<uint64_t, int> seen;
			for (size_t i = 0; i < reply_stream.size(); ++i) if (!reply_stream[i]) {
				Bytes msg; int v = ref::decode(framing, reply_stream.data() + b, i + 1 - b, msg); b = i + 1;
				if (v != ref::WELL) fail("bad-frame", "responder wrote a malformed frame");
				if (msg.size() < idlen) fail("bad-frame", "reply of %zu bytes is shorter than the %u byte id header", msg.size(), idlen);
				if (!(msg[0] & 0x80)) fail("not-marked", "frame sent by the responder is not marked as a reply");
				uint64_t id = msg[0] & 0x7f; for (unsigned k = 1; k < idlen; ++k) id = (id << 8) | msg[k];
				SReq *q = 0; for (auto &r : reqs) if (r.id == id && r.id) { q = &r; break; }
				if (!q) fail("foreign-id", "reply carries id %llx which no request used", (unsigned long long) id);
				if (q->is_reply) fail("answered-a-reply", "the responder answered a frame that was itself marked as reply (id %llx)", (unsigned long long) id);
				if (++seen[id] > 1) fail("second-reply", "request %llx was answered %d times", (unsigned long long) id, seen[id]);
				if (!q->handled) fail("foreign-id", "reply for request %llx before it was dispatched", (unsigned long long) id);
				// what the answer says: an explicit reply carries the handler's text, a default reply the answer header with the handler's result
				Bytes body(msg.begin() + idlen, msg.end());
				auto has = [&](const char *t) { size_t n = strlen(t); return std::search(body.begin(), body.end(), t, t + n) != body.end(); };
				if (q->faulted) continue;        // answered while an allocation failed: which of the answers made it is not constrained
				if (q->behaviour == 1 && !has("done")) fail("wrong-answer", "explicit reply to %llx does not carry the handler's text (%zu bytes)", (unsigned long long) id, body.size());
				if (q->behaviour == 4 && (!has("long") || body.size() != q->longlen)) fail("wrong-answer", "long reply to %llx arrived with %zu of %zu bytes", (unsigned long long) id, body.size(), q->longlen);
				if (q->behaviour == 2 && !has("first")) fail("wrong-answer", "reply to %llx is not the first of the two answers given (%zu bytes)", (unsigned long long) id, body.size());
				if (q->behaviour == 0 || q->behaviour == 3) {
					Bytes want = {(uint8_t) msgtype::Answer, (uint8_t) (q->behaviour == 3 ? -3 : 0)};
					if (body != want) fail("wrong-answer", "default reply to %llx is %zu bytes [%s], expected the answer header {%d,%d}", (unsigned long long) id, body.size(), hex(body, 12).c_str(), want[0], (int8_t) want[1]);
				}
			}
			if (final) for (auto &r : reqs) if (r.id && r.handled && !r.faulted && !r.is_reply && !seen.count(r.id)) fail("no-reply", "request %llx was dispatched (behaviour %d) but never answered", (unsigned long long) r.id, r.behaviour);
			if (final && b != reply_stream.size()) fail("bad-frame", "responder left an unterminated frame of %zu bytes on the wire", reply_stream.size() - b);
		};
		size_t discards = 0;      // dispatch calls without handler that returned normally: each may have skipped one message
		auto serve = [&](AllocFault af = AllocFault{0, false}, bool discard = false) -> int {
			uint64_t failn = af.n; bool from = af.from;
			if (discard) {
				// dispatch without handler: the pending message is skipped, nothing is answered
				int n; { Sut s; n = in->next(POLLIN); }
				int d, guard = 0;
				do { { Sut s; SUT_GUARD_ABORT(d = in->dispatch(0, 0)); } check_pending(); if (d >= 0) ++discards; } while (d >= 0 && (d & 0x10000) && ++guard < 64);
				st.hit("probe:dispatch_without_handler");
				log.ev("SERVE (no handler: discard) next=%d dispatch=%d", n, d);
				return d;
			}
			int n; { Sut s(failn, from); n = in->next(POLLIN); if (g.fired) { st.hit("fault:allocfail_in_poll"); if (!from) failn = 0; } }
			int d, guard = 0;
			do {
				std::vector<int> before; for (auto &r : reqs) before.push_back(r.handled);
				bool fired; { Sut s(failn, from); SUT_GUARD_ABORT(d = in->dispatch(responder_handler, &R)); fired = g.fired; }
				check_pending();
				if (fired) { st.hit(from ? "fault:allocfail_persistent_in_serve" : "fault:allocfail_in_serve"); if (!from) failn = 0; for (size_t k = 0; k < reqs.size(); ++k) if (reqs[k].handled && !before[k]) reqs[k].faulted = true; }
			} while (d >= 0 && (d & 0x10000) && ++guard < 64);
			log.ev("SERVE next=%d dispatch=%d", n, d);
			return d;
		};
		auto flush = [&](int fault, int64_t fa) -> int {
			simio::Fd *f = simio::get(sfd);
			f->wfault = fault == FL_SHORT ? simio::F_SHORT : fault == FL_EAGAIN ? simio::F_EAGAIN : 0; f->wfa = fa;
			int n; { Sut s; n = in->next(POLLOUT); }
			f->wfault = 0;
			log.ev("FLUSH%s -> %d", fault ? FAULTS[fault] : "", n);
			collect();
			return n;
		};
		for (const Op &op : p.ops) {
			st.hit(std::string("op:") + OPS[op.kind]);
			int outcome = 0;
			switch (op.kind) {
			case OP_REQ: {
				if (reqs.size() >= (size_t) std::min<int64_t>(std::max<int64_t>(p.get("maxreq", 12), 1), 64)) break;
				unsigned sel = (unsigned) (op.b & 0xff) % 6;
				uint64_t lim = (1ull << (8 * idlen - 1)) - 1;
				uint64_t id = sel == 0 ? 0 : sel == 1 ? 1 : sel == 2 ? lim : 1 + ((uint64_t) op.a % lim);
				bool dup = false; for (auto &r : reqs) if (r.id == id && id) dup = true;
				if (dup) break;
				SReq q; q.id = id; q.behaviour = (int) ((op.b >> 8) & 0xff) % 6;
				if (q.behaviour == 5) { if (!id) q.behaviour = 0; else { q.is_reply = true; st.hit("probe:reply_frame_received"); } }
				q.payload = {0x04, 0x00}; for (int k = 0; k < 4; ++k) q.payload.push_back((uint8_t) (serial >> (8 * k))); ++serial;
				if (p.get("varlong")) q.longlen = 150 + (size_t) (((uint64_t) op.a >> 16) % 600);
				size_t extra = (size_t) op.c % 30; for (size_t k = 0; k < extra; ++k) q.payload.push_back((uint8_t) (op.a >> (k % 8)));
				Bytes msg(idlen); for (unsigned k = 0; k < idlen; ++k) msg[idlen - 1 - k] = (uint8_t) (id >> (8 * k));
				if (q.is_reply) msg[0] |= 0x80;
				msg.insert(msg.end(), q.payload.begin(), q.payload.end());
				Bytes frame = ref::encode(framing, msg);
				simio::Chan *c = simio::chan(up); for (uint8_t b : frame) c->wire.push_back(b);
				reqs.push_back(q);
				log.ev("REQUEST id=%llx behaviour=%d payload=%zu bytes", (unsigned long long) id, q.behaviour, q.payload.size());
				outcome = 1;
				break;
			}
			case OP_DELIVER: { size_t n = simio::deliver(up, (size_t) std::max<int64_t>(op.c, 1)); log.ev("DELIVER %zu", n); if (n == 1) st.hit("fault:single_byte_delivery"); else if (n) st.hit("fault:segment_cut"); outcome = n > 0; break; }
			case OP_SERVE: outcome = serve(alloc_fault(op, FL_ALLOC), p.get("discards") && ((op.a & 0xf00) == 0x300)) >= 0; judge_replies(false); break;
			case OP_FLUSH: if (op.fault) st.hit(std::string("fault:writev_") + FAULTS[op.fault]); flush(op.fault, op.fa); judge_replies(false); outcome = 1; break;
			}
			st.state(760 + op.kind, (int) std::min<size_t>(reqs.size(), 3) * 4 + (op.fault ? 2 : 0) + (idlen > 2), outcome);
		}
		// drain: everything is delivered, served and flushed without faults
		simio::deliver(up, 1 << 20);
		for (int i = 0, idle = 0; i < 100000 && idle < 3; ++i) {
			size_t handled = 0; for (auto &r : reqs) handled += r.handled;
			uint64_t written = simio::chan(down)->written;
			serve();
			for (int k = 0; k < 100000 && flush(0, 0) > 0; ++k) {}
			size_t handled2 = 0; for (auto &r : reqs) handled2 += r.handled;
			idle = (handled == handled2 && written == simio::chan(down)->written) ? idle + 1 : 0;
		}
		{ size_t unhandled = 0; for (auto &r : reqs) if (!r.handled) ++unhandled;
		  if (unhandled > discards) for (auto &r : reqs) if (!r.handled) fail("request-lost", "request %llx was delivered completely but never dispatched (%zu such, %zu dispatch calls without handler could have skipped one each)", (unsigned long long) r.id, unhandled, discards); }
		collect();
		judge_replies(true);
		{ Sut s; in->unref(); }
		if (ledger_live()) fail("leak", "%zu block(s) allocated after the stream input was released: %s", ledger_live(), ledger_describe().c_str());
	}

	// ---- enumeration: scripted round trips (request, deliver, serve, answer, flush, deliver back, take the reply) repeated three times
	// over layer {L2, L3} x id width 1..4 x reply intake {dispatch, sync} x 7 responder behaviours x requester handler {ok, fails}
	// x allocation fault on the first serve {none, 1st, 2nd, 3rd allocation once, everything from the 1st / 2nd on}
	uint64_t sweep_count(int) override { return 3 * 4 * 2 * 7 * 2 * 6; }
	void sweep_plan(uint64_t idx, int, Plan &p) override {
		unsigned layer = 2 + idx % 3; idx /= 3;      // L2, L3, L4 (io::stream requester: the fault variant hits the first request instead of the first serve, the second request is one-way)
		unsigned idlen = 1 + idx % 4; idx /= 4;
		unsigned intake = idx % 2; idx /= 2;
		unsigned beh = idx % 7; idx /= 7;
		unsigned cbfail = idx % 2; idx /= 2;
		unsigned fv = idx % 6;
		p.set("layer", layer); p.set("idlen", idlen);
		if (layer == 2 || layer == 4) { p.set("chancap", 4096); p.set("sync", intake); p.set("big", 0); }
		auto add = [&](int kind, int side, int64_t a = 0, int64_t b = 0, int64_t c = 0) { Op o; o.kind = kind; o.a = a; o.b = side | b; o.c = c; p.ops.push_back(o); return p.ops.size() - 1; };
		const int A = 0, B = 1;
		for (unsigned round = 0; round < 3; ++round) {
			unsigned bh = (beh + 3 * round) % 7; bool awaited = layer == 4 ? round != 1 : round != 2;
			size_t rq = add(OP_REQ, A, (cbfail && round == 0) ? 0 : 4, (int64_t) (bh << 8) | (awaited ? 1 << 16 : 0), 7 + round);
			if (layer == 4 && round == 0 && fv) { p.ops[rq].fault = FL_ALLOC; p.ops[rq].fa = (int64_t) fv; }
			add(OP_DELIVER, A, 0, 0, layer != 3 ? 1000000 : 0);
			size_t sv = add(OP_SERVE, B);
			if (round == 0 && fv && layer != 4) { p.ops[sv].fault = FL_ALLOC; p.ops[sv].fa = fv <= 3 ? (int64_t) fv : (int64_t) (16 + fv - 3); }
			add(OP_DREPLY2, B, 0);
			add(OP_FLUSH, B);
			add(OP_DELIVER, B, 0, 0, layer != 3 ? 1000000 : 0);
			add(intake ? OP_SYNC : OP_SERVE, A);
		}
		add(OP_SERVE, A); add(OP_SERVE, B);
	}

	// ---- layer L2: two real connections (stream backend) that both send requests and serve the peer's
	void gen_conn(Rng &r, Plan &p, int tier) {
		p.set("layer", 2);
		p.set("idlen", r.chance(1, 8) ? 0 : r.chance(1, 10) ? r.range(5, 9) : r.range(1, 4));      // width 0: a connection without ids, everything is one-way; 9: wider than any id value
		p.set("forge", r.chance(1, 4));
		p.set("cframing", r.chance(1, 3) ? r.below(4) : 0);      // the connection's framing: mostly plain COBS, sometimes one of the other three
		static const int caps[] = {5, 32, 4096, 4096};
		p.set("chancap", r.pick(caps));
		bool syncm = r.chance(1, 3);
		p.set("sync", syncm);
		p.set("big", r.chance(1, 3));      // payloads up to 250 bytes: the 256 byte write queue has to grow while earlier messages are still pending
		int nops = (int) r.range(1, tier ? 90 : 45); bool iof = r.chance(1, 2), af = r.chance(1, 3);
		// pressure (as in L1): tiny pipe, many small requests, allocation faults aimed at the serve calls whose answers make the write queue grow
		bool pressure = r.chance(1, 4);
		if (pressure) { p.set("chancap", 5); p.set("big", 0); p.set("maxreq", 40); if (!p.get("idlen")) p.set("idlen", 4); nops = (int) r.range(40, 160); af = true; }
		for (int i = 0; i < nops; ++i) {
			Op op; unsigned k = (unsigned) r.below(16);
			op.kind = k < 4 ? OP_REQ : k < 7 ? OP_DELIVER : k < 11 ? OP_SERVE : k < 13 ? OP_FLUSH : k < 15 ? OP_DREPLY2 : OP_SYNC;
			if (syncm && (k == 10 || k == 14)) op.kind = OP_SYNC;     // the requester takes its replies mostly through sync
			if (pressure && op.kind == OP_FLUSH && r.chance(2, 3)) op.kind = OP_REQ;
			// a: random bits, b: side | behaviour << 8 | await << 16, c: size / count
			op.a = (int64_t) r.next(); op.b = r.below(2) | (r.below(7) << 8) | ((r.chance(1, 6) ? 0 : 1) << 16); op.c = r.chance(1, 3) ? 1 : r.chance(1, 2) ? 1000000 : r.range(1, 40);
			if (pressure && op.kind == OP_REQ) { op.b = r.below(2) | (r.below(r.chance(1, 8) ? 7 : 4) << 8) | (1 << 16); op.c = r.below(3); }
			if (op.kind == OP_SYNC) op.c = r.below(20000);
			if (iof && op.kind == OP_FLUSH && r.chance(1, 2)) { op.fault = r.chance(1, 2) ? FL_SHORT : FL_EAGAIN; op.fa = r.range(1, 5); }
			if (af && (op.kind == OP_SERVE || op.kind == OP_REQ || op.kind == OP_DREPLY2) && r.chance(1, pressure && op.kind == OP_SERVE ? 2 : 4)) { op.fault = FL_ALLOC; op.fa = pressure ? r.range(1, 2) : r.range(1, 5); if (op.kind == OP_SERVE && r.chance(1, 3)) op.fa += 16; }
			p.ops.push_back(op);
		}
	}
	struct CReq {
		uint32_t serial; int behaviour; bool awaited; uint64_t cid = 0; Bytes payload;
		bool sent = false, push_failed = false, faulted = false;
		int handled = 0, callbacks = 0, cancelled = 0; bool dropped = false, followup = false;
		int allowed_handled = 1, allowed_callbacks = 1;   // datagram layer: number of request / reply datagrams delivered
		int replies_made = 0; bool net_faulted = false;
		bool discarded = false;             // dispatched by the peer without handler
		bool transport_gone = false;        // the responder's connection was moved to another socket after this request was dispatched
		int cb_result = 0;                  // what the requester's reply handler returns (a failing handler must not disturb later replies)
		bool late_dropped = false;
		std::vector<reply_context_detached *> more_late;   // a duplicated request is deferred once per dispatch
		reply_context_detached *late = 0;    // handle of a deferred answer, held by the peer's handler
	};
	struct Peer { const char *name; connection *con = 0; stream *srm = 0; int fd = -1, rchan = -1, wchan = -1; std::vector<CReq> sent; };
	struct ConnCtx { Peer peer[2]; Log *log; Stats *st; uint32_t *serial = 0; unsigned idlen; int discards[2] = {0, 0}; bool zero_rich = false; };
	static std::string answer_text(const CReq &q) { char b[32]; snprintf(b, sizeof(b), "r%u;", q.serial); return b; }
	// reply callback registered with mpt_connection_await: arg = side << 16 | (index + 1)
	static int conn_reply_cb(void *arg, const message *msg) {
		Harness h;
		uintptr_t v = (uintptr_t) arg; unsigned side = (unsigned) (v >> 16) & 1; size_t idx = (v & 0xffff) - 1;
		ConnCtx &C = *(ConnCtx *) CCp;
		if (idx >= C.peer[side].sent.size()) { pend("wrong-requester", "reply callback with an argument nobody registered (%lx)", (unsigned long) v); return 0; }
		CReq &q = C.peer[side].sent[idx];
		if (!msg) { ++q.cancelled; C.log->ev("    %s: request r%u cancelled", C.peer[side].name, q.serial); return 0; }
		message m = *msg; size_t len = mpt_message_length(&m); Bytes body(len); mpt_message_read(&m, len, body.data());
		C.log->ev("    %s: reply for request r%u (id %llx): %zu bytes [%s]", C.peer[side].name, q.serial, (unsigned long long) q.cid, len, hex(body, 16).c_str());
		if (++q.callbacks > q.allowed_callbacks) { pend("second-delivery", "requester %s got %d answers for request r%u", C.peer[side].name, q.callbacks, q.serial); return 0; }
		if (!q.handled) {
			// the peer may have dispatched it without a handler (discarding): that answers with the bare id
			if (C.discards[side ^ 1] && body.empty()) { q.handled = 1; q.discarded = true; C.st->hit("probe:discarded_request_answered"); return q.cb_result; }
			pend("wrong-requester", "requester %s got an answer for request r%u which the peer has not seen", C.peer[side].name, q.serial); return 0; }
		if (q.discarded) return q.cb_result;
		if (q.faulted) return q.cb_result;
		std::string want = answer_text(q);
		bool text = std::search(body.begin(), body.end(), want.begin(), want.end()) != body.end();
		// does it carry some other request's answer?
		for (auto &o : C.peer[side].sent) if (&o != &q) { std::string t = answer_text(o); if (std::search(body.begin(), body.end(), t.begin(), t.end()) != body.end()) { pend("wrong-requester", "answer for request r%u was handed to the callback of r%u", o.serial, q.serial); return 0; } }
		bool expl = q.behaviour == 1 || q.behaviour == 2 || q.behaviour == 4 || q.behaviour == 5 || q.behaviour == 6;
		if (q.behaviour == 6 && !q.faulted && len != 2 + 300) { pend("wrong-answer", "long answer to r%u arrived with %zu of 302 bytes", q.serial, len); return 0; }
		if (expl && !text && !q.late_dropped) { pend("wrong-answer", "answer to r%u (behaviour %d) lacks the responder's text", q.serial, q.behaviour); return 0; }
		if (!expl) { Bytes w = {(uint8_t) msgtype::Answer, (uint8_t) (q.behaviour == 3 ? -3 : 0)}; if (body != w) pend("wrong-answer", "default answer to r%u is [%s]", q.serial, hex(body, 12).c_str()); }
		if (q.cb_result < 0) C.st->hit("probe:reply_handler_failed");
		int res = q.cb_result;
		if (q.followup && C.serial && C.peer[side].con && C.peer[side].sent.size() < 60) {
			// the handler of an answer sends a follow-up request of its own (awaited): the table of outstanding requests changes under the
			// caller that is just handing this answer over
			q.followup = false;
			CReq n; n.serial = (*C.serial)++; n.behaviour = 0; n.awaited = true; n.cb_result = 0;
			n.payload = {0x08, 0x00}; for (int k = 0; k < 4; ++k) n.payload.push_back((uint8_t) (n.serial >> (8 * k)));
			C.peer[side].sent.push_back(n);      // (q is gone from here on)
			size_t nidx = C.peer[side].sent.size() - 1; CReq &N = C.peer[side].sent.back(); connection *con = C.peer[side].con;
			int ar; ssize_t r = -1;
			{ Reenter s; ar = mpt_connection_await(con, conn_reply_cb, (void *) (uintptr_t) ((side << 16) | (nidx + 1)));
			  if (ar >= 0) { N.cid = con->cid; r = mpt_connection_push(con, N.payload.size(), N.payload.data()); if (r == (ssize_t) N.payload.size()) r = mpt_connection_push(con, 0, 0); else if (r >= 0) { mpt_connection_push(con, 1, 0); r = -1; } } }
			if (ar >= 0 && r >= 0) N.sent = true; else N.push_failed = true;
			C.log->ev("    %s: follow-up request r%u (id %llx) from the reply handler -> %s", C.peer[side].name, N.serial, (unsigned long long) N.cid, N.sent ? "sent" : "failed");
			C.st->hit("probe:followup_request_from_reply_handler");
		}
		return res;
	}
	// request handler of the serving side: arg = serving side
	static int conn_handler(void *arg, event *ev) {
		Harness h;
		ConnCtx &C = *(ConnCtx *) CCp; unsigned side = (unsigned) (uintptr_t) arg & 1; Peer &from = C.peer[side ^ 1];
		if (!ev) return 0;
		if (!ev->msg) { pend("bad-event", "connection dispatched an event without message"); return 0; }
		message m = *ev->msg; size_t len = mpt_message_length(&m); Bytes body(len); mpt_message_read(&m, len, body.data());
		CReq *q = 0; for (auto &r : from.sent) if (r.payload == body) { q = &r; break; }
		if (!q) { pend("invented", "%s received a request nobody sent (%zu bytes [%s])", C.peer[side].name, len, hex(body, 16).c_str()); return 0; }
		if (q->handled++ >= q->allowed_handled) { pend("duplicate-request", "request r%u dispatched %d times", q->serial, q->handled); return 0; }
		C.log->ev("    %s: handle request r%u id=%llx behaviour=%d reply-context=%s", C.peer[side].name, q->serial, (unsigned long long) q->cid, q->behaviour, ev->reply ? "yes" : "no");
		if (q->cid && !ev->reply && g.fired) { q->faulted = true; C.st->hit("probe:no_context_after_allocfail"); return 0; }   // the context could not be allocated: served without answer
		if ((q->cid != 0) != (ev->reply != 0)) { pend("reply-context", "request r%u with id %llx %s a reply context", q->serial, (unsigned long long) q->cid, ev->reply ? "got" : "did not get"); return 0; }
		if (!ev->reply) return 0;
		std::string t = answer_text(*q);
		switch (q->behaviour) {
		case 1: { Reenter s; mpt_context_reply(ev->reply, 0, "%s", t.c_str()); } return 0;
		case 2: { int r1, r2; { Reenter s; r1 = mpt_context_reply(ev->reply, 0, "%s", t.c_str()); r2 = mpt_context_reply(ev->reply, 1, "%s", "again"); }
			if (r1 >= 0 && r2 >= 0) pend("second-reply", "two explicit replies to request r%u were both accepted", q->serial); return 0; }
		case 6: { Bytes b = {(uint8_t) msgtype::Answer, 0}; b.insert(b.end(), t.begin(), t.end()); bool zr = C.zero_rich; while (b.size() < 302) b.push_back(zr && (b.size() % 3) ? 0 : (uint8_t) ('a' + b.size() % 23));      // zero-rich for the zero-pair framings: decoding needs scratch space
			// the answer as a fragmented message: sometimes with an empty first fragment, sometimes with an empty one in the middle
			message m; struct iovec fr[2]; m.base = b.data(); m.used = b.size(); m.cont = 0; m.clen = 0;
			if (q->serial % 3 == 0) { m.used = 0; fr[0].iov_base = b.data(); fr[0].iov_len = b.size(); m.cont = fr; m.clen = 1; C.st->hit("probe:reply_with_empty_first_fragment"); }
			else if (q->serial % 3 == 1) { m.used = 100; fr[0].iov_base = b.data() + 100; fr[0].iov_len = 0; fr[1].iov_base = b.data() + 100; fr[1].iov_len = b.size() - 100; m.cont = fr; m.clen = 2; C.st->hit("probe:reply_with_empty_middle_fragment"); }
			{ Reenter s; ev->reply->reply(&m); } return 0; }
		case 3: return -3;
		case 4: case 5: { reply_context_detached *d; { Reenter s; d = ev->reply->defer(); }
			if (d) { if (q->late) q->more_late.push_back(q->late); q->late = d; C.st->hit("probe:deferred"); } else { q->behaviour = 0; C.st->hit("probe:defer_refused"); }
			return 0; }
		default: return 0;
		}
	}
	void exec_conn(const Plan &p, Log &log, Stats &st) {
		ConnCtx C; C.log = &log; C.st = &st; CCp = &C; C.zero_rich = ((int) p.get("cframing") & 3) >= 2;
		unsigned idlen = C.idlen = (unsigned) std::min<int64_t>(std::max<int64_t>(p.get("idlen", 2), 0), 9);
		size_t chancap = (size_t) std::min<int64_t>(std::max<int64_t>(p.get("chancap", 4096), 1), 1 << 20);
		bool use_sync = p.get("sync") != 0, big = p.get("big") != 0;
		int ab = simio::new_chan(chancap), ba = simio::new_chan(chancap);
		C.peer[0].name = "A"; C.peer[1].name = "B";
		for (int i = 0; i < 2; ++i) {
			Peer &P = C.peer[i];
			P.rchan = i ? ab : ba; P.wchan = i ? ba : ab;
			P.fd = simio::new_fd(P.rchan, P.wchan, O_RDWR | O_NONBLOCK);
			// what mpt_connection_open does once the descriptor is connected
			void *mem; { Sut s; mem = malloc(sizeof(stream)); } P.srm = new (mem) stream();
			int rc; { Sut s; socket sk; sk._id = P.fd; rc = mpt_stream_dopen(P.srm, &sk, stream::RdWr | stream::Buffer); sk._id = -1; }
			if (rc < 0) fail("setup", "mpt_stream_dopen on the simulated descriptor failed");
			{ int cf = (int) p.get("cframing") & 3; P.srm->_wd._enc = encoder_for(cf); P.srm->_rd._dec = decoder_for(cf); }      // plain COBS unless the plan picks another of the four framings
			void *cm; { Sut s; cm = calloc(1, sizeof(connection)); } P.con = (connection *) cm;
			P.con->out.sock._id = -1; *reinterpret_cast<void **>(&P.con->out.buf) = P.srm; P.con->out._idlen = (uint8_t) idlen;
		}
		log.ev("reply L2 idlen=%u chancap=%zu reply intake=%s", idlen, chancap, use_sync ? "sync+dispatch" : "dispatch");
		st.hit("layer:L2");
		uint32_t serial = 1; C.serial = &serial;
		auto mark_faulted = [&](const std::vector<int> &b0, const std::vector<int> &b1) {
			for (int s = 0; s < 2; ++s) { const std::vector<int> &b = s ? b1 : b0; for (size_t k = 0; k < C.peer[s].sent.size(); ++k) if (C.peer[s].sent[k].handled && (k >= b.size() || !b[k])) C.peer[s].sent[k].faulted = true; }
		};
		auto snapshot = [&](int s) { std::vector<int> v; for (auto &r : C.peer[s].sent) v.push_back(r.handled); return v; };
		auto serve = [&](int side, AllocFault af, bool discard = false) -> int {
			Peer &P = C.peer[side]; uint64_t failn = af.n;
			int n; { Sut s; n = mpt_stream_poll(P.srm, POLLIN, 0); }
			int d, guard = 0;
			do {
				std::vector<int> b0 = snapshot(0), b1 = snapshot(1);
				bool fired; { Sut s(failn, af.from); if (discard) { SUT_GUARD_ABORT(d = mpt_connection_dispatch(P.con, 0, 0)); } else { SUT_GUARD_ABORT(d = mpt_connection_dispatch(P.con, conn_handler, (void *) (uintptr_t) side)); } fired = g.fired; }
				check_pending();
				if (fired) { st.hit(af.from ? "fault:allocfail_persistent_in_dispatch" : "fault:allocfail_in_dispatch"); if (!af.from) failn = 0; mark_faulted(b0, b1); }
			} while (d >= 0 && (d & 0x10000) && ++guard < 64);
			if (discard) { ++C.discards[side]; st.hit("probe:dispatch_without_handler"); }
			log.ev("SERVE %s%s poll=%d dispatch=%d", P.name, discard ? " (no handler: discard)" : "", n, d);
			return d;
		};
		auto flush = [&](int side, int fault, int64_t fa) -> int {
			Peer &P = C.peer[side]; simio::Fd *f = simio::get(P.fd);
			f->wfault = fault == FL_SHORT ? simio::F_SHORT : fault == FL_EAGAIN ? simio::F_EAGAIN : 0; f->wfa = fa;
			int n; { Sut s; n = mpt_stream_poll(P.srm, POLLOUT, 0); }
			f->wfault = 0;
			log.ev("FLUSH %s%s%s -> %d", P.name, fault ? " " : "", fault ? FAULTS[fault] : "", n);
			return n;
		};
		auto late_reply = [&](int side, CReq &q, int64_t failn, bool drop) {
			// the serving side answers a deferred request now
			std::string t = answer_text(q); Bytes b = {(uint8_t) msgtype::Answer, 0}; b.insert(b.end(), t.begin(), t.end());
			if (q.serial & 1) while (b.size() < 330) b.push_back((uint8_t) ('A' + b.size() % 19));     // beyond the 256 byte scratch area of a datagram reply
			message m; m.base = b.data(); m.used = b.size(); m.cont = 0; m.clen = 0;
			int r; bool fired; { Sut s(failn); SUT_GUARD_ABORT(r = q.late->reply(drop ? 0 : &m)); fired = g.fired; }
			check_pending();
			log.ev("LATE_REPLY %s r%u%s -> %d%s", C.peer[side].name, q.serial, drop ? " (released unanswered)" : "", r, fired ? " (allocation failed)" : "");
			if (fired) { st.hit("fault:allocfail_in_late_reply"); q.faulted = true; }
			if (drop) q.late_dropped = true;
			if (r >= 0 || drop) { q.late = 0; if (!q.more_late.empty()) { q.late = q.more_late.back(); q.more_late.pop_back(); } }
			return r;
		};
		for (const Op &op : p.ops) {
			st.hit(std::string("op:") + OPS[op.kind]);
			int side = (int) (op.b & 1), outcome = 0; Peer &P = C.peer[side];
			int64_t failn = op.fault == FL_ALLOC ? std::max<int64_t>(op.fa, 1) : 0;
			switch (op.kind) {
			case OP_REQ: {
				if (P.sent.size() >= (size_t) std::min<int64_t>(std::max<int64_t>(p.get("maxreq", 10), 1), 64)) break;
				CReq q; q.serial = serial++; q.behaviour = (int) ((op.b >> 8) & 0xff) % 7; q.awaited = (op.b >> 16) & 1; q.cb_result = ((op.a >> 2) & 3) == 0 ? -1 : 0;
				q.payload = {0x08, 0x00}; for (int k = 0; k < 4; ++k) q.payload.push_back((uint8_t) (q.serial >> (8 * k)));
				size_t extra = big ? (size_t) ((uint64_t) op.a >> 5) % 250 : (size_t) op.c % 40; for (size_t k = 0; k < extra; ++k) q.payload.push_back((uint8_t) (op.a >> (k % 8)));
				q.followup = q.awaited && ((uint64_t) op.a & 0x6000) == 0x6000;
				P.sent.push_back(q); CReq &Q = P.sent.back(); size_t idx = P.sent.size() - 1;
				bool fired = false; int ar = 0;
				{ Sut s(failn);
				  if (Q.awaited) { SUT_GUARD_ABORT(ar = mpt_connection_await(P.con, conn_reply_cb, (void *) (uintptr_t) ((side << 16) | (idx + 1)))); }
				  if (ar >= 0) {
					Q.cid = P.con->cid;
					size_t off = 0, cut = (op.a & 1) ? Q.payload.size() / 2 : Q.payload.size(); ssize_t r = 0; int guard = 0;
					bool dropit = ((uint64_t) op.a & 0x1801) == 0x1801;      // the requester gives the message up half-way (as the library's own callers do after a failed push)
					while (off < Q.payload.size() && ++guard < 64) {
						size_t n = (off < cut ? cut : Q.payload.size()) - off;
						SUT_GUARD_ABORT(r = mpt_connection_push(P.con, n, Q.payload.data() + off));
						if (r < 0) break;
						off += (size_t) r;
						if (dropit && off >= cut) break;
					}
					if (dropit && r >= 0 && off < Q.payload.size()) {
						int dr; SUT_GUARD_ABORT(dr = mpt_connection_push(P.con, 1, 0));
						C.st->hit(dr >= 0 ? "probe:request_dropped_halfway" : "probe:request_drop_refused");
						// dropped: nothing of it may reach the peer, and what is sent afterwards is a message of its own; refused: it stays in progress and is finished
						if (dr < 0) { while (off < Q.payload.size() && ++guard < 64) { SUT_GUARD_ABORT(r = mpt_connection_push(P.con, Q.payload.size() - off, Q.payload.data() + off)); if (r < 0) break; off += (size_t) r; } }
						else Q.dropped = true;
					}
					if (r >= 0 && off == Q.payload.size()) { SUT_GUARD_ABORT(r = mpt_connection_push(P.con, 0, 0)); }
					if (r < 0 || off < Q.payload.size()) Q.push_failed = true; else Q.sent = true;
				  } else Q.push_failed = true;
				  fired = g.fired; }
				check_pending();
				if (fired) { st.hit("fault:allocfail_in_request"); Q.faulted = true; }
				if (Q.push_failed && !fired) st.hit("probe:send_refused_without_fault");    // refusing is safe; the statement does not demand progress here
				log.ev("REQUEST %s r%u id=%llx behaviour=%d %s payload=%zu -> %s", P.name, Q.serial, (unsigned long long) Q.cid, Q.behaviour, Q.awaited ? "awaited" : "one-way", Q.payload.size(), Q.sent ? "sent" : "failed");
				if (getenv("VERIF_TRACE_Q")) log.ev("    write queue of %s: off=%zu len=%zu max=%zu done=%zu scratch=%zu ctx=%zu", P.name, P.srm->_wd.off, P.srm->_wd.len, P.srm->_wd.max, P.srm->_wd._state.done, P.srm->_wd._state.scratch, (size_t) P.srm->_wd._state._ctx);
				if (Q.awaited && Q.sent && !Q.cid) fail("no-id", "awaited request r%u was sent without an id", Q.serial);
				outcome = Q.sent;
				break;
			}
			case OP_DELIVER: {
				if (p.get("forge") && idlen && ((uint64_t) op.a & 0xf000) == 0x7000) {
					// the network slips in a frame nobody sent: marked as reply, with an id no request has (for width 9: one that does not fit 64 bits).
					// It may be refused or dropped; it must not reach any requester's handler. Only at a frame boundary of the byte stream.
					simio::Chan *c = simio::chan(P.wchan);
					bool boundary = !c->wire.empty() ? c->wire.back() == 0 : (!c->avail.empty() && c->avail.back() == 0);
					if (boundary) {
						Bytes m(idlen); for (unsigned k = 0; k < idlen; ++k) m[k] = (uint8_t) (0xfe - k); m[0] = (uint8_t) (0x80 | 0x7e);
						m.push_back((uint8_t) msgtype::Answer); m.push_back(0); m.push_back('f'); m.push_back('g');
						// (or a frame too short to hold an id at all: one byte with the reply mark, for id widths of two and more)
						if (idlen >= 2 && ((uint64_t) op.a & 0x800)) { m.assign(1, (uint8_t) 0x81); st.hit("fault:forged_short_reply_frame"); }
						Bytes fr = ref::encode(ref::COBS, m); for (uint8_t b : fr) c->wire.push_back(b);
						log.ev("FORGED reply frame of %zu bytes (id width %u) towards %s", fr.size(), idlen, C.peer[side ^ 1].name); st.hit("fault:forged_reply_frame");
					}
				}
				size_t n = simio::deliver(P.wchan, (size_t) std::max<int64_t>(op.c, 1)); log.ev("DELIVER from %s: %zu", P.name, n); if (n == 1) st.hit("fault:single_byte_delivery"); else if (n) st.hit("fault:segment_cut"); outcome = n > 0; break; }
			case OP_SERVE: outcome = serve(side, alloc_fault(op, FL_ALLOC), (op.a & 0xf00) == 0x300) >= 0; break;
			case OP_FLUSH: if (op.fault) st.hit(std::string("fault:writev_") + FAULTS[op.fault]); flush(side, op.fault, op.fa); outcome = 1; break;
			case OP_DREPLY2: {
				// side answers one of the requests it deferred (sent by the other side)
				std::vector<CReq *> pendg; for (auto &r : C.peer[side ^ 1].sent) if (r.late) pendg.push_back(&r);
				if (pendg.empty()) break;
				CReq &q = *pendg[(size_t) ((uint64_t) op.a >> 8) % pendg.size()];
				outcome = late_reply(side, q, failn, q.behaviour == 5 && (op.a & 2)) >= 0;
				break;
			}
			case OP_SYNC: {
				if (!use_sync) break;
				// wait at most `timeout` simulated milliseconds for replies: the call must come back within that time whatever is (not) on the wire
				int timeout = (op.c % 3) == 0 ? 0 : (int) (op.c % 5000); int64_t t0 = simio::S.now_ms; uint64_t forever0 = simio::S.poll_block_forever;
				// (sometimes whatever has arrived is first loaded into the read buffer by a plain poll for input, as an event loop does before it decides what to call)
				if (((uint64_t) op.a & 0xc000) == 0xc000) { int pr; { Sut s; SUT_GUARD_ABORT(pr = mpt_stream_poll(P.srm, POLLIN, 0)); } log.ev("POLL %s before sync -> %d", P.name, pr); }
				// (what the read buffer already holds before the call: a complete frame behind the decoder's position?)
				bool complete_before = false; { const decode_queue &rq0 = P.srm->_rd; if (rq0._state.data.msg < 0 && rq0.max) for (size_t i = rq0._state.curr; i < rq0.len; ++i) if (!((const uint8_t *) rq0.base)[(rq0.off + i) % rq0.max]) { complete_before = true; break; } }
				int cb_before = 0; for (auto &q0 : P.sent) cb_before += q0.callbacks + q0.cancelled; size_t armed_before = 0; { const command *c0 = P.con->_wait.begin(); for (long k = 0; c0 && k < P.con->_wait.length(); ++k) if (c0[k].cmd) ++armed_before; }
				int r; { Sut s; SUT_GUARD_ABORT(r = mpt_stream_sync(P.srm, idlen, &P.con->_wait, timeout)); }
				check_pending();
				int cb_after = 0; for (auto &q0 : P.sent) cb_after += q0.callbacks + q0.cancelled;
				// a complete frame that was already buffered is looked at before anything is waited for: with requests outstanding the call either hands it
				// to a handler or says why not (a request of the peer's, an unknown id, no room) - it does not come back with 'nothing there' or wait for more
				// (a frame may be consumed without any handler running - an unknown id - so what is judged is what the call leaves behind)
				bool complete_after = false; { const decode_queue &rq1 = P.srm->_rd; if (rq1._state.data.msg < 0 && rq1.max) for (size_t i = rq1._state.curr; i < rq1.len; ++i) if (!((const uint8_t *) rq1.base)[(rq1.off + i) % rq1.max]) { complete_after = true; break; } }
				size_t armed_after = 0; { const command *c1 = P.con->_wait.begin(); for (long k = 0; c1 && k < P.con->_wait.length(); ++k) if (c1[k].cmd) ++armed_after; }
				if (complete_before && complete_after && armed_after && idlen && cb_after == cb_before && (r >= 0 || r == -4))
					fail("no-reply", "sync (timeout %d) returns %d without having looked at the complete frame its read buffer already held (%zu request(s) outstanding)", timeout, r, armed_after);
				if (complete_before && armed_before) st.hit("probe:sync_with_buffered_frame");
				int64_t waited = simio::S.now_ms - t0;
				log.ev("SYNC %s timeout=%d -> %d after %lld ms", P.name, timeout, r, (long long) waited); outcome = r >= 0; st.hit("probe:sync");
				if (r == E_MissingBuffer) {
					// the stream's read buffer can grow: a complete frame in it must not end the wait with "missing buffer"
					const decode_queue &rq = P.srm->_rd; bool complete = false;
					for (size_t i = rq._state.curr; i < rq.len; ++i) if (!((const uint8_t *) rq.base)[(rq.off + i) % rq.max]) { complete = true; break; }
					if (complete) fail("no-reply", "sync ends with 'missing buffer' (%d) although the rest of the reply frame is in the growable read buffer (%zu of %zu bytes used)", r, rq.len, rq.max);
				}
				if (waited > timeout) fail("overslept", "sync with a timeout of %d ms waited %lld ms", timeout, (long long) waited);
				if (simio::S.poll_block_forever != forever0) fail("blocks-forever", "sync with a timeout of %d ms polled without timeout while nothing can arrive", timeout);
				if (waited) st.hit("probe:sync_timed_out");
				break;
			}
			}
			st.state(780 + op.kind, (int) std::min<size_t>(C.peer[0].sent.size() + C.peer[1].sent.size(), 3) * 4 + (op.fault ? 2 : 0) + side, outcome);
		}
		// drain without faults: deliver, serve, answer what was deferred, flush — until nothing moves
		for (int round = 0; round < 100000; ++round) {
			uint64_t before = simio::S.readv_calls * 0 + simio::chan(ab)->read + simio::chan(ba)->read + simio::chan(ab)->written + simio::chan(ba)->written;
			for (int s = 0; s < 2; ++s) {
				simio::deliver(C.peer[s].wchan, 1 << 20);
				serve(s, AllocFault{0, false});
				for (auto &r : C.peer[s ^ 1].sent) if (r.late) late_reply(s, r, 0, false);
				for (int k = 0; k < 4096 && flush(s, 0, 0) > 0; ++k) simio::deliver(C.peer[s].wchan, 1 << 20);
			}
			uint64_t after = simio::chan(ab)->read + simio::chan(ba)->read + simio::chan(ab)->written + simio::chan(ba)->written;
			bool left = !simio::chan(ab)->wire.empty() || !simio::chan(ba)->wire.empty() || !simio::chan(ab)->avail.empty() || !simio::chan(ba)->avail.empty();
			if (after == before && !left && round > 1) break;
		}
		for (int s = 0; s < 2; ++s) for (auto &q : C.peer[s].sent) {
			if (!q.sent) continue;
			if (!q.handled && !q.faulted && !C.discards[s ^ 1]) fail("request-lost", "request r%u of %s was sent completely but never dispatched at the peer", q.serial, C.peer[s].name);
			if (q.awaited && q.handled && !q.faulted && q.callbacks != 1 && !(q.late_dropped && q.callbacks == 0 && false))
				fail("no-reply", "awaited request r%u of %s (behaviour %d) was dispatched but its callback ran %d times", q.serial, C.peer[s].name, q.behaviour, q.callbacks);
			if (!q.awaited && q.callbacks) fail("wrong-requester", "one-way request r%u got an answer", q.serial);
		}
		// the requester's record of armed requests: one that was answered is armed no longer (its id is free again, a further answer is refused)
		for (int s = 0; s < 2; ++s) {
			bool all = true; int awaited = 0; for (auto &q : C.peer[s].sent) if (q.awaited) { ++awaited; if (!q.sent || q.faulted || q.callbacks != 1) all = false; }
			size_t active = 0; { const command *c = C.peer[s].con->_wait.begin(); long n = C.peer[s].con->_wait.length(); for (long k = 0; c && k < n; ++k) if (c[k].cmd) ++active; }
			if (all && awaited && active) fail("answered-still-armed", "all %d awaited requests of %s were answered once, but %zu are still armed in its table of outstanding requests", awaited, C.peer[s].name, active);
			if (all && awaited) st.hit("probe:wait_table_checked");
		}
		for (int s = 0; s < 2; ++s) { Sut su; mpt_connection_fini(C.peer[s].con); free(C.peer[s].con); }
		check_pending();
		CCp = 0;
		st.hit("sim:ms", (uint64_t) simio::S.now_ms);
		if (ledger_live()) fail("leak", "%zu block(s) allocated after both connections were finished: %s", ledger_live(), ledger_describe().c_str());
	}

	// ---- layer L4: the C++ io::stream as requester (await / push / sync / dispatch of its own) against a connection as responder
	void exec_cxxreq(const Plan &p, Log &log, Stats &st) {
		ConnCtx C; C.log = &log; C.st = &st; CCp = &C;
		unsigned idlen = C.idlen = (unsigned) std::min<int64_t>(std::max<int64_t>(p.get("idlen", 2), 1), 8);
		size_t chancap = (size_t) std::min<int64_t>(std::max<int64_t>(p.get("chancap", 4096), 1), 1 << 20);
		bool use_sync = p.get("sync") != 0, big = p.get("big") != 0;
		int ab = simio::new_chan(chancap), ba = simio::new_chan(chancap);
		C.peer[0].name = "A(io::stream)"; C.peer[1].name = "B";
		// responder B: as in L2
		Peer &B = C.peer[1]; B.rchan = ab; B.wchan = ba; B.fd = simio::new_fd(B.rchan, B.wchan, O_RDWR | O_NONBLOCK);
		{ void *mem; { Sut s; mem = malloc(sizeof(stream)); } B.srm = new (mem) stream();
		  int rc; { Sut s; socket sk; sk._id = B.fd; rc = mpt_stream_dopen(B.srm, &sk, stream::RdWr | stream::Buffer); sk._id = -1; } if (rc < 0) fail("setup", "dopen B");
		  B.srm->_wd._enc = mpt_message_encoder(EncodingCobs); B.srm->_rd._dec = mpt_message_decoder(EncodingCobs);
		  void *cm; { Sut s; cm = calloc(1, sizeof(connection)); } B.con = (connection *) cm;
		  B.con->out.sock._id = -1; *reinterpret_cast<void **>(&B.con->out.buf) = B.srm; B.con->out._idlen = (uint8_t) idlen; }
		// requester A: io::stream::input over the other end
		Peer &A = C.peer[0]; A.rchan = ba; A.wchan = ab; A.fd = simio::new_fd(A.rchan, A.wchan, O_RDWR | O_NONBLOCK);
		io::stream::input *ios; { Sut s; ios = io::stream::input::create(0); }
		if (!ios) fail("setup", "io::stream::input::create failed");
		{ Sut s; if (!ios->_srm) ios->_srm = new stream(); socket sk; sk._id = A.fd; int rc = mpt_stream_dopen(ios->_srm, &sk, stream::RdWr | stream::Buffer); sk._id = -1; if (rc < 0) fail("setup", "dopen A"); }
		ios->_srm->_wd._enc = mpt_message_encoder(EncodingCobs); ios->_srm->_rd._dec = mpt_message_decoder(EncodingCobs);
		ios->_idlen = (uint8_t) idlen; ios->_inputFile = A.fd;      // set_property("idlen") refuses exactly that name (section 9)
		A.srm = ios->_srm;
		log.ev("reply L4 idlen=%u chancap=%zu reply intake=%s", idlen, chancap, use_sync ? "sync+dispatch" : "dispatch");
		st.hit("layer:L4");
		uint32_t serial = 1;
		auto snapshot = [&](int s) { std::vector<int> v; for (auto &r : C.peer[s].sent) v.push_back(r.handled); return v; };
		auto mark_faulted = [&](const std::vector<int> &b0) { for (size_t k = 0; k < A.sent.size(); ++k) if (A.sent[k].handled && (k >= b0.size() || !b0[k])) A.sent[k].faulted = true; };
		auto serveB = [&](AllocFault af) -> int {
			uint64_t failn = af.n; int n; { Sut s; n = mpt_stream_poll(B.srm, POLLIN, 0); } int d, guard = 0;
			do { std::vector<int> b0 = snapshot(0); bool fired; { Sut s(failn, af.from); SUT_GUARD_ABORT(d = mpt_connection_dispatch(B.con, conn_handler, (void *) (uintptr_t) 1)); fired = g.fired; }
				check_pending(); if (fired) { st.hit("fault:allocfail_in_dispatch"); if (!af.from) failn = 0; mark_faulted(b0); } } while (d >= 0 && (d & 0x10000) && ++guard < 64);
			log.ev("SERVE B poll=%d dispatch=%d", n, d); return d;
		};
		auto serveA = [&]() -> int {
			int n; { Sut s; n = ios->next(POLLIN); } int d, guard = 0;
			do { { Sut s; SUT_GUARD_ABORT(d = ios->dispatch(conn_handler, (void *) (uintptr_t) 0)); } check_pending(); } while (d >= 0 && (d & 0x10000) && ++guard < 64);
			log.ev("SERVE A next=%d dispatch=%d", n, d); return d;
		};
		auto flush = [&](int side, int fault, int64_t fa) -> int {
			Peer &P = C.peer[side]; simio::Fd *f = simio::get(P.fd);
			f->wfault = fault == FL_SHORT ? simio::F_SHORT : fault == FL_EAGAIN ? simio::F_EAGAIN : 0; f->wfa = fa;
			int n; { Sut s; n = side ? mpt_stream_poll(P.srm, POLLOUT, 0) : ios->next(POLLOUT); }
			f->wfault = 0; log.ev("FLUSH %s -> %d", P.name, n); return n;
		};
		auto late_reply = [&](CReq &q, int64_t failn, bool drop) {
			std::string t = answer_text(q); Bytes b = {(uint8_t) msgtype::Answer, 0}; b.insert(b.end(), t.begin(), t.end());
			message m; m.base = b.data(); m.used = b.size(); m.cont = 0; m.clen = 0;
			int r; bool fired; { Sut s(failn); SUT_GUARD_ABORT(r = q.late->reply(drop ? 0 : &m)); fired = g.fired; }
			check_pending(); log.ev("LATE_REPLY B r%u%s -> %d", q.serial, drop ? " (released unanswered)" : "", r);
			if (fired) { st.hit("fault:allocfail_in_late_reply"); q.faulted = true; } if (drop) q.late_dropped = true;
			if (r >= 0 || drop) { q.late = 0; if (!q.more_late.empty()) { q.late = q.more_late.back(); q.more_late.pop_back(); } }
		};
		for (const Op &op : p.ops) {
			st.hit(std::string("op:") + OPS[op.kind]);
			int side = (int) (op.b & 1), outcome = 0;
			int64_t failn = op.fault == FL_ALLOC ? std::max<int64_t>(op.fa, 1) : 0; if (failn >= 17) failn = 0;
			switch (op.kind) {
			case OP_REQ: {
				Peer &P = C.peer[side];
				if (P.sent.size() >= 10) break;
				CReq q; q.serial = serial++; q.behaviour = (int) ((op.b >> 8) & 0xff) % 7; q.awaited = side == 0 && ((op.b >> 16) & 1); q.cb_result = ((op.a >> 2) & 3) == 0 ? -1 : 0;
				q.payload = {0x08, 0x00}; for (int k = 0; k < 4; ++k) q.payload.push_back((uint8_t) (q.serial >> (8 * k)));
				size_t extra = big ? (size_t) ((uint64_t) op.a >> 5) % 250 : (size_t) op.c % 40; for (size_t k = 0; k < extra; ++k) q.payload.push_back((uint8_t) (op.a >> (k % 8)));
				P.sent.push_back(q); CReq &Q = P.sent.back(); size_t idx = P.sent.size() - 1;
				bool fired = false; int ar = 0; ssize_t r = 0;
				if (side == 0) {
					Sut s(failn);
					if (Q.awaited) { SUT_GUARD_ABORT(ar = ios->await(conn_reply_cb, (void *) (uintptr_t) ((0 << 16) | (idx + 1)))); }
					if (ar >= 0) {
						Q.cid = ios->_cid;
						size_t off = 0, cut = (op.a & 1) ? Q.payload.size() / 2 : Q.payload.size(); int guard = 0;
						while (off < Q.payload.size() && ++guard < 64) {          // push reports what it took; the caller offers the rest again
							size_t n = (off < cut ? cut : Q.payload.size()) - off;
							SUT_GUARD_ABORT(r = ios->push(n, Q.payload.data() + off));
							if (r <= 0) break;
							off += (size_t) r;
						}
						if (r >= 0 && off == Q.payload.size()) { SUT_GUARD_ABORT(r = ios->push(0, 0)); }
						if (r < 0 || off < Q.payload.size()) Q.push_failed = true; else Q.sent = true;
					} else Q.push_failed = true;
					fired = g.fired;
				} else {
					Sut s(failn);
					size_t off = 0; int guard = 0;
					while (off < Q.payload.size() && ++guard < 64) { SUT_GUARD_ABORT(r = mpt_connection_push(B.con, Q.payload.size() - off, Q.payload.data() + off)); if (r <= 0) break; off += (size_t) r; }
					if (r >= 0 && off == Q.payload.size()) { SUT_GUARD_ABORT(r = mpt_connection_push(B.con, 0, 0)); }
					if (r < 0 || off < Q.payload.size()) { Q.push_failed = true; if (r >= 0) { SUT_GUARD_ABORT(mpt_connection_push(B.con, 1, 0)); } } else Q.sent = true;
					fired = g.fired;
				}
				check_pending();
				if (fired) { st.hit("fault:allocfail_in_request"); Q.faulted = true; }
				if (Q.push_failed && !fired) st.hit("probe:send_refused_without_fault");
				if (Q.push_failed && side == 0) { Sut s; ios->push(1, 0); }        // the caller drops the partial message
				log.ev("REQUEST %s r%u id=%llx behaviour=%d %s payload=%zu -> %s (await %d, push %zd)", P.name, Q.serial, (unsigned long long) Q.cid, Q.behaviour, Q.awaited ? "awaited" : "one-way", Q.payload.size(), Q.sent ? "sent" : "failed", ar, r);
				if (Q.awaited && Q.sent && !Q.cid) fail("no-id", "awaited request r%u was sent without an id", Q.serial);
				outcome = Q.sent; break;
			}
			case OP_DELIVER: { size_t n = simio::deliver(C.peer[side].wchan, (size_t) std::max<int64_t>(op.c, 1)); log.ev("DELIVER from %s: %zu", C.peer[side].name, n); if (n == 1) st.hit("fault:single_byte_delivery"); else if (n) st.hit("fault:segment_cut"); outcome = n > 0; break; }
			case OP_SERVE: outcome = (side ? serveB(alloc_fault(op, FL_ALLOC)) : serveA()) >= 0; break;
			case OP_FLUSH: if (op.fault) st.hit(std::string("fault:writev_") + FAULTS[op.fault]); flush(side, op.fault, op.fa); outcome = 1; break;
			case OP_DREPLY2: { std::vector<CReq *> pendg; for (auto &r : A.sent) if (r.late) pendg.push_back(&r); if (pendg.empty()) break;
				CReq &q = *pendg[(size_t) ((uint64_t) op.a >> 8) % pendg.size()]; late_reply(q, failn, q.behaviour == 5 && (op.a & 2)); outcome = 1; break; }
			case OP_SYNC: {
				if (!use_sync) break;
				int timeout = (op.c % 3) == 0 ? 0 : (int) (op.c % 5000); int64_t t0 = simio::S.now_ms; uint64_t forever0 = simio::S.poll_block_forever;
				int r; { Sut s; SUT_GUARD_ABORT(r = ios->sync(timeout)); }
				check_pending(); int64_t waited = simio::S.now_ms - t0;
				log.ev("SYNC A timeout=%d -> %d after %lld ms", timeout, r, (long long) waited); st.hit("probe:sync");
				if (waited > timeout) fail("overslept", "io::stream sync with a timeout of %d ms waited %lld ms", timeout, (long long) waited);
				if (simio::S.poll_block_forever != forever0) fail("blocks-forever", "io::stream sync with a timeout of %d ms polled without timeout", timeout);
				outcome = r >= 0; break;
			}
			}
			st.state(820 + op.kind, (int) std::min<size_t>(A.sent.size() + B.sent.size(), 3) * 4 + (op.fault ? 2 : 0) + side, outcome);
		}
		for (int round = 0; round < 100000; ++round) {
			uint64_t before = simio::chan(ab)->read + simio::chan(ba)->read + simio::chan(ab)->written + simio::chan(ba)->written;
			for (int s = 0; s < 2; ++s) {
				simio::deliver(C.peer[s].wchan, 1 << 20);
				if (s) { serveB(AllocFault{0, false}); for (auto &r : A.sent) if (r.late) late_reply(r, 0, false); } else serveA();
				for (int k = 0; k < 4096 && flush(s, 0, 0) > 0; ++k) simio::deliver(C.peer[s].wchan, 1 << 20);
			}
			uint64_t after = simio::chan(ab)->read + simio::chan(ba)->read + simio::chan(ab)->written + simio::chan(ba)->written;
			bool left = !simio::chan(ab)->wire.empty() || !simio::chan(ba)->wire.empty() || !simio::chan(ab)->avail.empty() || !simio::chan(ba)->avail.empty();
			if (after == before && !left && round > 1) break;
		}
		for (int s = 0; s < 2; ++s) for (auto &q : C.peer[s].sent) {
			if (!q.sent) continue;
			if (!q.handled && !q.faulted) fail("request-lost", "request r%u of %s was sent completely but never dispatched at the peer", q.serial, C.peer[s].name);
			if (q.awaited && q.handled && !q.faulted && q.callbacks != 1) fail("no-reply", "awaited request r%u of %s (behaviour %d) was dispatched but its callback ran %d times", q.serial, C.peer[s].name, q.behaviour, q.callbacks);
			if (!q.awaited && q.callbacks) fail("wrong-requester", "one-way request r%u got an answer", q.serial);
		}
		{ Sut su; mpt_connection_fini(B.con); free(B.con); }
		{ Sut su; ios->unref(); }
		check_pending(); CCp = 0;
		st.hit("sim:ms", (uint64_t) simio::S.now_ms);
		if (ledger_live()) fail("leak", "%zu block(s) allocated after the io::stream and the connection were released: %s", ledger_live(), ledger_describe().c_str());
	}

	// ---- layer L3: two real mpt_output_remote objects on a simulated datagram socket pair (loss, duplication, reordering)
	void gen_dgram(Rng &r, Plan &p, int tier) {
		p.set("layer", 3);
		p.set("idlen", r.chance(1, 8) ? 0 : r.range(1, 4));      // width 0: a connection without ids, everything is one-way
		p.set("forge", r.chance(1, 4));
		int nops = (int) r.range(1, tier ? 80 : 40); bool net = r.chance(2, 3), af = r.chance(1, 3);
		for (int i = 0; i < nops; ++i) {
			Op op; unsigned k = (unsigned) r.below(16);
			op.kind = k < 4 ? OP_REQ : k < 8 ? OP_DELIVER : k < 12 ? OP_SERVE : k < 14 ? OP_DREPLY2 : k < 15 ? OP_SYNC : OP_FLUSH;
			if (k == 15 && r.chance(1, 4)) op.kind = OP_REASSIGN;    // the connection is moved to another socket while answers may still be owed
			op.a = (int64_t) r.next(); op.b = r.below(2) | (r.below(7) << 8) | ((r.chance(1, 6) ? 0 : 1) << 16); op.c = r.chance(1, 2) ? 0 : r.range(0, 5);
			if (op.kind == OP_SYNC) op.c = r.below(20000);
			if (net && op.kind == OP_DELIVER && r.chance(1, 3)) { op.fault = r.chance(1, 2) ? FL_DROP : FL_DUP; }
			if (net && op.kind == OP_REQ && r.chance(1, 8)) { op.fault = FL_SENDFAIL; }
			if (af && !op.fault && (op.kind == OP_SERVE || op.kind == OP_REQ || op.kind == OP_DREPLY2) && r.chance(1, 4)) { op.fault = FL_ALLOC; op.fa = r.range(1, 5); if (op.kind == OP_SERVE && r.chance(1, 3)) op.fa += 16; }
			p.ops.push_back(op);
		}
	}
	struct SockSource : convertable {
		int fd;
		int convert(type_t t, void *ptr) override { if (t == TypeUnixSocket) { if (ptr) *(int *) ptr = fd; return TypeUnixSocket; } return BadType; }
	};
	struct DPeer { input *in = 0; object *obj = 0; output *out = 0; connection *con = 0; int fd = -1, rchan = -1, wchan = -1; };
	void exec_dgram(const Plan &p, Log &log, Stats &st) {
		ConnCtx C; C.log = &log; C.st = &st; CCp = &C;
		unsigned idlen = C.idlen = (unsigned) std::min<int64_t>(std::max<int64_t>(p.get("idlen", 2), 0), 8);
		int ab = simio::new_dchan(), ba = simio::new_dchan();
		DPeer D[2];
		C.peer[0].name = "A"; C.peer[1].name = "B";
		for (int i = 0; i < 2; ++i) {
			DPeer &P = D[i]; P.rchan = i ? ab : ba; P.wchan = i ? ba : ab;
			int fd0 = simio::new_dgram_fd(P.rchan, P.wchan);
			{ Sut s; P.in = mpt_output_remote(); }
			if (!P.in) fail("setup", "mpt_output_remote failed");
			{ Sut s; P.in->convert(TypeObjectPtr, &P.obj); P.in->convert(TypeOutputPtr, &P.out); }
			if (!P.obj || !P.out) fail("setup", "remote output does not convert to object and output");
			SockSource src; src.fd = fd0; int rc; { Sut s; rc = P.obj->set_property(0, &src); }
			if (rc < 0) fail("setup", "assigning the datagram socket failed (%d)", rc);
			{ Sut s; close(fd0); }          // the connection works on its own duplicate
			// the connection lives behind the four interface pointers and the reference count of the private out_data
			P.con = (connection *) ((char *) P.in + 4 * sizeof(void *) + sizeof(uintptr_t));
			P.fd = P.con->out.sock._id;
			simio::Fd *f = simio::get(P.fd);
			if (!f || !f->dgram || !f->open) fail("setup", "connection of the remote output is not where the harness expects it (socket %d)", P.fd);
			P.con->out._idlen = (uint8_t) idlen;      // no public setter exists for the id width of a connection
		}
		log.ev("reply L3 idlen=%u (datagram sockets)", idlen);
		st.hit("layer:L3");
		uint32_t serial = 1;
		auto snapshot = [&](int s) { std::vector<int> v; for (auto &r : C.peer[s].sent) v.push_back(r.handled); return v; };
		auto mark_faulted = [&](const std::vector<int> &b0, const std::vector<int> &b1) {
			for (int s = 0; s < 2; ++s) { const std::vector<int> &b = s ? b1 : b0; for (size_t k = 0; k < C.peer[s].sent.size(); ++k) if (C.peer[s].sent[k].handled > (k < b.size() ? b[k] : 0)) C.peer[s].sent[k].faulted = true; }
		};
		// classify a datagram sent by `side`: reply to a request of the other side, or one of side's own requests
		auto classify = [&](int side, const Bytes &d, bool &reply) -> CReq * {
			reply = false;
			if (d.size() < idlen || d.empty()) return 0;
			uint64_t id = d[0] & 0x7f; for (unsigned k = 1; k < idlen; ++k) id = (id << 8) | d[k];
			if (d[0] & 0x80) { reply = true; CReq *q = 0;      // ids are reused once a connection forgot its commands: prefer the request that still waits for its answer
				for (auto &r : C.peer[side ^ 1].sent) if (r.cid == id && r.cid && (!q || r.handled > r.replies_made)) q = &r; return q; }
			Bytes body(d.begin() + idlen, d.end());
			for (auto &r : C.peer[side].sent) if (r.payload == body) return &r;
			return 0;
		};
		size_t seen_sent[2] = {0, 0}; bool split = false;
		// everything a side has put on the wire since the last look must be one of its requests or exactly one reply per dispatch
		auto audit_wire = [&](int side) {
			simio::DChan *c = simio::dchan(D[side].wchan);
			while (seen_sent[side] < c->sent) {
				size_t back = (size_t) (c->sent - seen_sent[side]);      // new datagrams are the last `back` of the in-flight list
				if (back > c->wire.size()) fail("harness", "datagram bookkeeping lost track");
				const Bytes &d = c->wire[c->wire.size() - back]; ++seen_sent[side];
				bool reply; CReq *q = classify(side, d, reply);
				if (!reply) { if (!q) fail("invented", "%s sent a datagram that is neither a reply nor one of its requests (%zu bytes [%s])", C.peer[side].name, d.size(), hex(d, 16).c_str()); continue; }
				if (!q) fail("foreign-id", "%s sent a reply whose id no request of the peer carries [%s]", C.peer[side].name, hex(d, 12).c_str());
				if (q->transport_gone) fail("wrong-requester", "the answer to request r%u went out on a socket the connection was given after the request had arrived", q->serial);
				if (++q->replies_made > q->handled) fail("second-reply", "request r%u was dispatched %d time(s) but %d replies went out", q->serial, q->handled, q->replies_made);
			}
		};
		auto serve = [&](int side, AllocFault af, bool discard = false) -> int {
			DPeer &P = D[side]; int d = 0; uint64_t failn = af.n; if (discard) { ++C.discards[side]; st.hit("probe:dispatch_without_handler"); }
			for (int guard = 0; guard < 16; ++guard) {
				// a dispatch without handler does not tell the harness what it consumed: look at the datagram it is about to receive
				if (discard) {
					Bytes dg; bool have = false;
					if (P.con->out.state & 0x20) { const buffer *b = *reinterpret_cast<buffer * const *>(&P.con->out.buf); if (b) { dg.assign((const uint8_t *) (b + 1), (const uint8_t *) (b + 1) + b->_used); have = true; } }   // received earlier, not yet dispatched
					else if (!simio::dchan(P.rchan)->avail.empty()) { dg = simio::dchan(P.rchan)->avail.front(); have = true; }
					if (have) { bool rep; CReq *pq = classify(side ^ 1, dg, rep); if (pq && !rep && pq->cid) { ++pq->handled; pq->discarded = true; } }
				}
				int n; { Sut s; n = P.in->next(POLLIN); }
				if (!(P.con->out.state & 0x20 /* received */) && n <= 0 && simio::dchan(P.rchan)->avail.empty()) break;
				std::vector<int> b0 = snapshot(0), b1 = snapshot(1);
				bool fired; { Sut s(failn, af.from); if (discard) { SUT_GUARD_ABORT(d = P.in->dispatch(0, 0)); } else { SUT_GUARD_ABORT(d = P.in->dispatch(conn_handler, (void *) (uintptr_t) side)); } fired = g.fired; }
				check_pending();
				if (fired) { st.hit(af.from ? "fault:allocfail_persistent_in_dispatch" : "fault:allocfail_in_dispatch"); if (!af.from) failn = 0; mark_faulted(b0, b1); }
				log.ev("SERVE %s next=%d dispatch=%d", C.peer[side].name, n, d);
				audit_wire(side);
				if (d < 0) break;
			}
			return d;
		};
		auto late_reply = [&](int side, CReq &q, int64_t failn, bool drop) {
			std::string t = answer_text(q); Bytes b = {(uint8_t) msgtype::Answer, 0}; b.insert(b.end(), t.begin(), t.end());
			if (q.serial & 1) while (b.size() < 330) b.push_back((uint8_t) ('A' + b.size() % 19));     // beyond the 256 byte scratch area of a datagram reply
			message m; m.base = b.data(); m.used = b.size(); m.cont = 0; m.clen = 0;
			int r; bool fired; { Sut s(failn); SUT_GUARD_ABORT(r = q.late->reply(drop ? 0 : &m)); fired = g.fired; }
			check_pending();
			log.ev("LATE_REPLY %s r%u%s -> %d%s", C.peer[side].name, q.serial, drop ? " (released unanswered)" : "", r, fired ? " (allocation failed)" : "");
			if (fired) { st.hit("fault:allocfail_in_late_reply"); q.faulted = true; }
			if (drop) q.late_dropped = true;
			if (r >= 0 || drop) { q.late = 0; if (!q.more_late.empty()) { q.late = q.more_late.back(); q.more_late.pop_back(); } }
			audit_wire(side);
			return r;
		};
		auto deliver = [&](int side, size_t idx, int fault) -> bool {
			simio::DChan *c = simio::dchan(D[side].wchan);
			if (c->wire.empty()) return false;
			idx %= c->wire.size();
			bool reply; CReq *q = classify(side, c->wire[idx], reply);
			if (idx) st.hit("fault:reordered");
			if (fault == FL_DROP) { simio::ddrop(D[side].wchan, idx); st.hit("fault:datagram_lost"); if (q) q->net_faulted = true; log.ev("LOSE datagram %zu from %s (%s r%u)", idx, C.peer[side].name, reply ? "reply" : "request", q ? q->serial : 0); return true; }
			if (fault == FL_DUP) { simio::ddup(D[side].wchan, idx); ++seen_sent[side]; ++simio::dchan(D[side].wchan)->sent; st.hit("fault:datagram_duplicated"); if (q) q->net_faulted = true; log.ev("DUPLICATE datagram %zu from %s", idx, C.peer[side].name); return true; }
			if (q) { if (reply) q->allowed_callbacks = 1; else ++q->allowed_handled; }      // (a request is answered at most once at the requester, however many reply datagrams arrive)
			simio::ddeliver(D[side].wchan, idx);
			log.ev("DELIVER datagram %zu from %s (%s r%u)", idx, C.peer[side].name, reply ? "reply" : "request", q ? q->serial : 0);
			return true;
		};
		for (const Op &op : p.ops) {
			st.hit(std::string("op:") + OPS[op.kind]);
			int side = (int) (op.b & 1), outcome = 0; DPeer &P = D[side]; Peer &Q = C.peer[side];
			int64_t failn = op.fault == FL_ALLOC ? std::max<int64_t>(op.fa, 1) : 0;
			switch (op.kind) {
			case OP_REQ: {
				if (Q.sent.size() >= 10) break;
				CReq q; q.serial = serial++; q.behaviour = (int) ((op.b >> 8) & 0xff) % 7; q.awaited = (op.b >> 16) & 1; q.allowed_handled = 0; q.allowed_callbacks = 0; q.cb_result = ((op.a >> 2) & 3) == 0 ? -1 : 0;
				q.payload = {0x08, 0x00}; for (int k = 0; k < 4; ++k) q.payload.push_back((uint8_t) (q.serial >> (8 * k)));
				size_t extra = (size_t) ((uint64_t) op.a >> 3) % 40; for (size_t k = 0; k < extra; ++k) q.payload.push_back((uint8_t) (op.a >> (k % 8)));
				if (split) q.net_faulted = true;      // after a reassignment the two sides no longer talk to each other
				Q.sent.push_back(q); CReq &R = Q.sent.back(); size_t idx = Q.sent.size() - 1;
				if (op.fault == FL_SENDFAIL) { simio::get(P.fd)->wfault = simio::F_EPIPE; st.hit("fault:send_refused"); }
				bool fired = false; int ar = 0; ssize_t r = 0;
				{ Sut s(failn);
				  if (R.awaited) { SUT_GUARD_ABORT(ar = P.out->await(conn_reply_cb, (void *) (uintptr_t) ((side << 16) | (idx + 1)))); }
				  if (ar >= 0) {
					R.cid = P.con->cid;
					size_t cut = (op.a & 1) ? R.payload.size() / 2 : R.payload.size();
					SUT_GUARD_ABORT(r = P.out->push(cut, R.payload.data()));
					if (r >= 0 && cut < R.payload.size()) { SUT_GUARD_ABORT(r = P.out->push(R.payload.size() - cut, R.payload.data() + cut)); }
					if (r >= 0) { SUT_GUARD_ABORT(r = P.out->push(0, 0)); }
					if (r < 0) R.push_failed = true; else R.sent = true;
				  } else R.push_failed = true;
				  fired = g.fired; }
				simio::get(P.fd)->wfault = 0;
				check_pending();
				if (fired) { st.hit("fault:allocfail_in_request"); R.faulted = true; }
				if (R.push_failed && !fired && op.fault != FL_SENDFAIL) st.hit("probe:send_refused_without_fault");    // refusing is safe; the statement does not demand progress here
				if (R.push_failed) { SUT_GUARD_ABORT(P.out->push(1, 0)); }     // what a caller does after a failed send: drop the partial message
				log.ev("REQUEST %s r%u id=%llx behaviour=%d %s payload=%zu -> %s", Q.name, R.serial, (unsigned long long) R.cid, R.behaviour, R.awaited ? "awaited" : "one-way", R.payload.size(), R.sent ? "sent" : "failed");
				if (R.awaited && R.sent && !R.cid) fail("no-id", "awaited request r%u was sent without an id", R.serial);
				audit_wire(side);
				outcome = R.sent;
				break;
			}
			case OP_DELIVER:
				if (p.get("forge") && C.idlen && ((uint64_t) op.a & 0xf000) == 0x7000) {
					// a datagram nobody sent arrives: marked as reply, with an id no request has. It may be refused or dropped; it must reach no
					// handler, and it must not leave anything behind that the next message of this side goes out with.
					Bytes m(C.idlen); for (unsigned k = 0; k < C.idlen; ++k) m[k] = (uint8_t) (0xfe - k); m[0] = (uint8_t) (0x80 | 0x7e);
					m.push_back((uint8_t) msgtype::Answer); m.push_back(0); m.push_back('f'); m.push_back('g');
					simio::dchan(D[side].rchan)->avail.push_back(m);
					log.ev("FORGED reply datagram of %zu bytes arrives at %s", m.size(), C.peer[side].name); st.hit("fault:forged_reply_datagram");
					outcome = 1; break;
				}
				outcome = deliver(side, (size_t) op.c, op.fault); break;
			case OP_SERVE: outcome = serve(side, alloc_fault(op, FL_ALLOC), (op.a & 0xf00) == 0x300) >= 0; break;
			case OP_FLUSH: { int n; { Sut s; n = P.in->next(POLLOUT); } log.ev("FLUSH %s -> %d", Q.name, n); audit_wire(side); outcome = 1; break; }
			case OP_DREPLY2: {
				std::vector<CReq *> pendg; for (auto &r : C.peer[side ^ 1].sent) if (r.late) pendg.push_back(&r);
				if (pendg.empty()) break;
				CReq &q = *pendg[(size_t) ((uint64_t) op.a >> 8) % pendg.size()];
				outcome = late_reply(side, q, failn, q.behaviour == 5 && (op.a & 2)) >= 0;
				break;
			}
			case OP_REASSIGN: {
				// side's remote output is given a fresh socket (to somebody else): whatever was owed on the old one must not appear on the new one
				int nr = simio::new_dchan(), nw = simio::new_dchan(); int fd0 = simio::new_dgram_fd(nr, nw);
				SockSource src; src.fd = fd0; int rc; { Sut s; SUT_GUARD_ABORT(rc = P.obj->set_property(0, &src)); }
				{ Sut s; close(fd0); }
				check_pending();
				log.ev("REASSIGN %s -> %d", Q.name, rc);
				if (rc < 0) { st.hit("probe:reassign_refused"); break; }
				st.hit("probe:reassigned");
				P.rchan = nr; P.wchan = nw; P.fd = P.con->out.sock._id; seen_sent[side] = 0; split = true;
				P.con->out._idlen = (uint8_t) idlen;
				for (int s2 = 0; s2 < 2; ++s2) for (auto &r : C.peer[s2].sent) { r.net_faulted = true; if (s2 != side) r.transport_gone = true; }
				outcome = 1;
				break;
			}
			case OP_SYNC: {
				int timeout = (op.c % 3) == 0 ? 0 : (int) (op.c % 5000); int64_t t0 = simio::S.now_ms; uint64_t forever0 = simio::S.poll_block_forever;
				int r; { Sut s; SUT_GUARD_ABORT(r = P.out->sync(timeout)); }
				check_pending();
				int64_t waited = simio::S.now_ms - t0;
				log.ev("SYNC %s timeout=%d -> %d after %lld ms", Q.name, timeout, r, (long long) waited); outcome = r >= 0; st.hit("probe:sync");
				if (waited > timeout) fail("overslept", "sync with a timeout of %d ms waited %lld ms", timeout, (long long) waited);
				if (simio::S.poll_block_forever != forever0) fail("blocks-forever", "sync with a timeout of %d ms polled without timeout while nothing can arrive", timeout);
				if (waited) st.hit("probe:sync_timed_out");
				audit_wire(side);
				break;
			}
			}
			st.state(800 + op.kind, (int) std::min<size_t>(C.peer[0].sent.size() + C.peer[1].sent.size(), 3) * 4 + (op.fault ? 2 : 0) + side, outcome);
		}
		// drain: the network delivers what is still in flight, in order, and loses nothing more
		for (int round = 0; round < 200; ++round) {
			bool moved = false;
			for (int s = 0; s < 2; ++s) {
				while (!simio::dchan(D[s].wchan)->wire.empty()) { deliver(s, 0, 0); moved = true; }
			}
			for (int s = 0; s < 2; ++s) {
				size_t before = simio::dchan(D[s].rchan)->received;
				serve(s, AllocFault{0, false});
				for (auto &r : C.peer[s ^ 1].sent) if (r.late) { late_reply(s, r, 0, false); moved = true; }
				if (simio::dchan(D[s].rchan)->received != before) moved = true;
			}
			for (int s = 0; s < 2; ++s) if (!simio::dchan(D[s].wchan)->wire.empty() || !simio::dchan(D[s].rchan)->avail.empty()) moved = true;
			if (!moved) break;
		}
		for (int s = 0; s < 2; ++s) for (auto &q : C.peer[s].sent) {
			if (!q.sent || q.faulted || q.net_faulted) continue;
			if (C.discards[s ^ 1] && (q.discarded || !q.handled)) continue;      // consumed by a dispatch without handler
			if (C.discards[s]) continue;                                           // the requester itself threw input away, replies included
			if (q.handled != 1) fail("request-lost", "request r%u of %s reached the peer once but was dispatched %d times", q.serial, C.peer[s].name, q.handled);
			if (q.awaited && q.replies_made != 1) fail("no-reply", "awaited request r%u of %s (behaviour %d) was dispatched but %d replies went out", q.serial, C.peer[s].name, q.behaviour, q.replies_made);
			if (q.awaited && q.callbacks != 1) fail("no-reply", "awaited request r%u of %s (behaviour %d): the reply was delivered but the callback ran %d times", q.serial, C.peer[s].name, q.behaviour, q.callbacks);
			if (!q.awaited && (q.callbacks || q.replies_made)) fail("wrong-requester", "one-way request r%u got an answer", q.serial);
		}
		for (int s = 0; s < 2; ++s) { Sut su; D[s].in->unref(); }
		check_pending();
		CCp = 0;
		st.hit("sim:ms", (uint64_t) simio::S.now_ms);
		if (ledger_live()) fail("leak", "%zu block(s) allocated after both remote outputs were released: %s", ledger_live(), ledger_describe().c_str());
	}

	static uint64_t pick_id(int64_t bits, unsigned w, unsigned sel) {
		uint64_t lim = w == 0 ? 0 : (w >= 8 ? 0x7fffffffffffffffull : ((1ull << (8 * w - 1)) - 1)); // largest id that fits w bytes with the mark bit clear
		switch (sel) {
		case 0: return 0; case 1: return 1; case 2: return lim; case 3: return lim + 1;
		case 4: return w >= 8 ? ~0ull : ((1ull << (8 * w)) - 1);
		case 5: return w >= 8 ? ~0ull - 1 : (1ull << (8 * w)) + (((uint64_t) bits >> 40) % 3 == 0 ? 0 : ((uint64_t) bits >> 8) % ((1ull << (w ? 8 * (w - 1) : 0)) + 1)); // just beyond the width
		case 6: return w >= 7 ? (uint64_t) bits : (uint64_t) bits >> (64 - 8 * (w + 1));                                   // random, one byte wider than the header
		default: return (uint64_t) bits >> (w >= 8 ? 0 : 64 - 8 * (w ? w : 1));
		}
	}
	void exec(const Plan &p, Log &log, Stats &st) override {
		if (p.get("layer") == 4) { exec_cxxreq(p, log, st); return; }
		if (p.get("layer") == 3) { exec_dgram(p, log, st); return; }
		if (p.get("layer") == 2) { exec_conn(p, log, st); return; }
		if (p.get("layer")) { exec_stream(p, log, st); return; }
		Transport T; T.log = &log; T.st = &st; TR = &T;
		size_t ctxlen = (size_t) std::min<int64_t>(std::max<int64_t>(p.get("ctxlen", 4), 1), 64);
		metatype *ctx = 0; int ctx_refs = 0; bool transport_attached = true;
		struct Handle { reply_context_detached *h; size_t req; };
		std::vector<Handle> handles;
		ssize_t armed = -1; // index of the request currently armed on the context
		auto new_ctx = [&](uint64_t failn) {
			{ Sut s(failn); ctx = mpt_reply_deferrable(ctxlen, transport_send, &T); if (g.fired) st.hit("fault:allocfail"); }
			ctx_refs = ctx ? 1 : 0; transport_attached = true; armed = -1;
			log.ev("NEW_CTX idlen=%zu -> %s", ctxlen, ctx ? "ok" : "null");
		};
		auto get_rc = [&]() -> reply_context * {
			reply_context *rc = 0; int r; { Sut s; r = ctx->convert(TypeReplyPtr, &rc); }
			if (r < 0 || !rc) fail("context-broken", "reply context no longer converts to its reply interface (%d)", r);
			return rc;
		};
		auto close_req = [&](size_t i, bool answered_expected) {
			Req &q = T.reqs[i]; q.closed = true;
			if (q.accepted > 1) fail("second-reply", "request %llx got %d accepted replies", (unsigned long long) q.id, q.accepted);
			if (answered_expected && !q.transport_lost && q.accepted != 1)
				fail("no-reply", "request %llx (width %u) is finished but the transport accepted %d replies (sends offered: %d)", (unsigned long long) q.id, q.width, q.accepted, q.sends);
			if (q.transport_lost && q.accepted) {}
		};
		new_ctx(0);
		for (const Op &op : p.ops) {
			uint64_t failn = op.fault == FL_ALLOC ? 1 : 0;
			T.reject_next = op.fault == FL_REJECT ? (int) std::max<int64_t>(op.fa, 1) : 0;
			unsigned w = (unsigned) (op.b & 0xff) % 10, sel = (unsigned) ((op.b >> 8) & 0xff) % 8;
			int outcome = 0;
			st.hit(std::string("op:") + OPS[op.kind]);
			switch (op.kind) {
			case OP_ID: {
				uint64_t id = pick_id(op.a, w, sel);
				Block buf(w, 0); memset(buf.p, 0xEE, w);
				int rc; { Sut s; rc = mpt_message_id2buf(id, buf.p, w); }
				bool fits = w == 0 ? id == 0 : w >= 9 ? true : w == 8 ? id < (1ull << 63) : id < (1ull << (8 * w - 1));
				log.ev("ID %llx width %u -> %d", (unsigned long long) id, w, rc);
				if (!fits) { if (rc >= 0) fail("id-accepted", "id %llx written into %u header bytes (does not fit with the reply mark clear)", (unsigned long long) id, w); outcome = 0; break; }
				if (rc < 0) fail("id-refused", "id %llx refused for %u header bytes (%d)", (unsigned long long) id, w, rc);
				uint64_t back = ~id; int rb; { Sut s; rb = mpt_message_buf2id(buf.p, w, &back); }
				if (rb < 0) fail("id-roundtrip", "id %llx written to %u bytes cannot be read back (%d)", (unsigned long long) id, w, rb);
				if (back != id) fail("id-roundtrip", "id %llx written to %u bytes reads back as %llx", (unsigned long long) id, w, (unsigned long long) back);
				outcome = 1;
				break;
			}
			case OP_ARM: {
				if (!ctx || armed >= 0) break;
				unsigned aw = 1 + w % (unsigned) std::min<size_t>(ctxlen, 8);
				uint64_t id = pick_id(op.a, aw, sel == 3 || sel == 4 || sel == 5 || sel == 6 ? 7 : sel);
				// ids of outstanding requests are unique (the requester reserves them)
				bool dup = false; for (auto &q : T.reqs) if (!q.closed && q.id == id && q.width == aw) dup = true;
				if (dup) break;
				uint8_t idb[8]; int rc; { Sut s; rc = mpt_message_id2buf(id, idb, aw); }
				if (rc < 0) break;
				reply_data *rd = 0; int cr; { Sut s; cr = ctx->convert(TypeReplyDataPtr, &rd); }
				if (cr < 0 || !rd) fail("context-broken", "context does not hand out its reply data (%d)", cr);
				int sr; { Sut s; sr = mpt_reply_set(rd, aw, idb); }
				log.ev("ARM id=%llx width=%u -> %d", (unsigned long long) id, aw, sr);
				if (sr < 0) fail("arm-refused", "arming with a %u byte id refused on a context for %zu byte ids", aw, ctxlen);
				Req q; q.id = id; q.width = aw; q.transport_lost = !transport_attached; T.reqs.push_back(q); armed = (ssize_t) T.reqs.size() - 1;
				get_rc(); // arming must leave the context itself intact
				outcome = 1;
				break;
			}
			case OP_REPLY: {
				if (!ctx) break;
				reply_context *rc = get_rc();
				uint8_t body[3] = {0x01, 0x00, (uint8_t) op.c};
				message m; m.base = body; m.used = sizeof body; m.cont = 0; m.clen = 0;
				uint64_t before = T.calls;
				int r; { Sut s; r = rc->reply(&m); }
				check_pending();
				log.ev("REPLY -> %d (armed %zd, sends %llu)", r, armed, (unsigned long long) (T.calls - before));
				if (armed < 0) {
					if (T.calls != before) fail("second-reply", "reply without an armed request reached the transport");
					if (r >= 0) fail("reply-accepted", "reply accepted although no request is armed");
					outcome = 0; break;
				}
				Req &q = T.reqs[(size_t) armed];
				if (q.accepted) { close_req((size_t) armed, true); armed = -1; if (r < 0) fail("reply-lost", "transport accepted the reply but the context reports %d", r); outcome = 2; }
				else if (q.transport_lost) { if (r >= 0) { close_req((size_t) armed, false); armed = -1; } outcome = 3; }
				else { if (r >= 0) fail("reply-lost", "context reports success but the transport accepted nothing"); outcome = 1; }
				break;
			}
			case OP_DEFER: {
				if (!ctx) break;
				reply_context *rc = get_rc();
				reply_context_detached *h; uint64_t fired; { Sut s(failn); h = rc->defer(); fired = g.fired; }
				if (fired) st.hit("fault:allocfail");
				log.ev("DEFER%s -> %s (armed %zd)", fired ? " allocfail" : "", h ? "handle" : "null", armed);
				if (armed < 0) { if (h) fail("defer-unarmed", "defer handed out a handle although no request is armed"); break; }
				if (!h) { if (!fired) fail("defer-refused", "defer of an armed request refused"); break; }
				handles.push_back(Handle{h, (size_t) armed}); armed = -1; outcome = 1;
				break;
			}
			case OP_DREPLY: case OP_DRELEASE: {
				if (handles.empty()) break;
				size_t hi = (size_t) op.c % handles.size();
				Handle H = handles[hi]; Req &q = T.reqs[H.req];
				uint8_t body[2] = {0x01, 0x07};
				message m; m.base = body; m.used = sizeof body; m.cont = 0; m.clen = 0;
				bool release = op.kind == OP_DRELEASE;
				uint64_t before = T.calls;
				int r; { Sut s; r = H.h->reply(release ? 0 : &m); }
				check_pending();
				log.ev("%s handle of %llx -> %d (sends %llu)", OPS[op.kind], (unsigned long long) q.id, r, (unsigned long long) (T.calls - before));
				bool consumed = release || r >= 0;
				if (!release && r >= 0 && !q.accepted && !q.transport_lost && transport_attached) fail("reply-lost", "deferred reply reports success but the transport accepted nothing");
				if (consumed) {
					handles.erase(handles.begin() + hi);
					// released unanswered while the transport rejects: nothing more can be demanded of this request
					bool lost = q.transport_lost || !transport_attached || (release && !q.accepted && T.calls != before);
					if (lost) q.transport_lost = true;
					close_req(H.req, true);
				}
				outcome = consumed ? 1 : 0;
				break;
			}
			case OP_ADDREF: {
				if (!ctx || ctx_refs > 3) break;
				uintptr_t r; { Sut s; r = ctx->addref(); }
				log.ev("ADDREF_CTX -> %lu", (unsigned long) r);
				if (!r) fail("addref-refused", "reference on a live context refused");
				++ctx_refs; outcome = 1;
				break;
			}
			case OP_UNREF: {
				if (!ctx) break;
				uint64_t before = T.calls;
				bool last = ctx_refs == 1;
				bool others = !handles.empty(); // deferred handles keep the context memory alive
				{ Sut s; ctx->unref(); }
				check_pending();
				--ctx_refs;
				log.ev("UNREF_CTX (refs left %d, handles %zu, sends %llu)", ctx_refs, handles.size(), (unsigned long long) (T.calls - before));
				if (!last) {
					// an owner went away while others remain: the library detaches the transport - after the armed request, which nobody can
					// answer any more from then on, got its default reply
					if (armed >= 0) {
						Req &q = T.reqs[(size_t) armed];
						if (!q.transport_lost && transport_attached && T.reject_next == 0 && op.fault != FL_REJECT && q.accepted != 1)
							fail("no-default-reply", "a holder of the context let go (the transport is detached from then on) with request %llx armed and unanswered: transport accepted %d replies", (unsigned long long) q.id, q.accepted);
						if (q.accepted == 1) { close_req((size_t) armed, true); armed = -1; }
					}
					transport_attached = false;
					for (auto &q : T.reqs) if (!q.closed) q.transport_lost = true;
				} else {
					if (armed >= 0) {
						Req &q = T.reqs[(size_t) armed];
						// (deferred handles of other requests keep the memory alive; they do not take the armed request's default reply away)
						if (!q.transport_lost && T.reject_next == 0 && op.fault != FL_REJECT && q.accepted != 1)
							fail("no-default-reply", "context released with request %llx armed and unanswered%s: transport accepted %d replies", (unsigned long long) q.id, others ? " (other requests are deferred)" : "", q.accepted);
						if (q.accepted != 1 && (others || op.fault == FL_REJECT)) q.transport_lost = true;
						close_req((size_t) armed, !q.transport_lost); armed = -1;
					}
					if (others) { transport_attached = false; for (auto &q : T.reqs) if (!q.closed) q.transport_lost = true; }
					ctx = 0;
				}
				outcome = last ? 2 : 1;
				break;
			}
			case OP_NEWCTX: {
				if (ctx || !handles.empty()) break;
				new_ctx(failn); outcome = ctx ? 1 : 0;
				break;
			}
			}
			T.reject_next = 0;
			st.state(700 + op.kind, (armed >= 0 ? 8 : 0) + (handles.size() > 2 ? 2 : handles.size()) * 2 + (transport_attached ? 1 : 0) + 16 * (ctx ? std::min(ctx_refs, 3) : 0), outcome + 8 * (op.fault));
		}
		// teardown: release handles, then the context; afterwards every request is accounted for
		T.reject_next = 0;
		while (!handles.empty()) {
			Handle H = handles.back(); handles.pop_back();
			{ Sut s; H.h->reply(0); }
			check_pending();
			Req &q = T.reqs[H.req];
			if (!transport_attached) q.transport_lost = true;
			close_req(H.req, true);
		}
		while (ctx && ctx_refs > 0) {
			bool last = ctx_refs == 1;
			{ Sut s; ctx->unref(); }
			check_pending();
			--ctx_refs;
			if (!last) { transport_attached = false; for (auto &q : T.reqs) if (!q.closed) q.transport_lost = true; }
			else { if (armed >= 0) { close_req((size_t) armed, true); armed = -1; } ctx = 0; }
		}
		for (size_t i = 0; i < T.reqs.size(); ++i) if (!T.reqs[i].closed) fail("request-unaccounted", "request %llx neither answered nor released at the end", (unsigned long long) T.reqs[i].id);
		if (ledger_live()) fail("leak", "%zu block(s) allocated after context and handles were released: %s", ledger_live(), ledger_describe().c_str());
	}
};

namespace sim { World *the_world() { static ReplyWorld w; return &w; } }
