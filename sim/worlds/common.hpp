// shared by all worlds: real mpt-base headers with member access opened for the
// harness (layout is unchanged; the library archives are compiled untouched)
#pragma once
#include <cstdint>
#include <cstdio>
#include <cstdlib>
#include <cstring>
#include <cerrno>
#include <string>
#include <vector>
#include <deque>
#include <map>
#include <set>
#include <algorithm>
#include <ostream>
#include <new>
#include <limits>
#include <typeinfo>
#include <sys/uio.h>
#include <sys/types.h>

#define protected public
#define private public
#include "core.h"
#include "types.h"
#include "array.h"
#include "queue.h"
#include "message.h"
#include "convert.h"
#include "meta.h"
#include "node.h"
#include "config.h"
#include "event.h"
#include "parse.h"
#include "object.h"
#include "output.h"
#include "stream.h"
#include "connection.h"
#include "notify.h"
#undef protected
#undef private

#include "kernel/sim.hpp"
#include "ref/cobs_ref.hpp"

using sim::Bytes;

static inline mpt::data_encoder_t encoder_for(int framing) {
	switch (framing) {
	case ref::COBS: return mpt::mpt_encode_cobs;
	case ref::COBS_R: return mpt::mpt_encode_cobs_r;
	case ref::ZPE: return mpt::mpt_encode_cobs_zpe;
	case ref::ZPE_R: return mpt::mpt_encode_cobs_zpe_r;
	default: return mpt::mpt_encode_string;
	}
}
static inline mpt::data_decoder_t decoder_for(int framing) {
	switch (framing) {
	case ref::COBS: return mpt::mpt_decode_cobs;
	case ref::COBS_R: return mpt::mpt_decode_cobs_r;
	case ref::ZPE: return mpt::mpt_decode_cobs_zpe;
	case ref::ZPE_R: return mpt::mpt_decode_cobs_zpe_r;
	default: return mpt::mpt_decode_command;
	}
}
// the C view of the library's error numbers
enum { E_BadArgument = -1, E_BadValue = -2, E_BadType = -3, E_BadOperation = -4, E_BadEncoding = -8,
       E_MissingData = -0x10, E_MissingBuffer = -0x11 };

// boundary-biased length draw
static inline int64_t edgy(sim::Rng &r, int64_t max) {
	static const int64_t edges[] = {0, 1, 2, 3, 29, 30, 31, 32, 33, 62, 63, 64, 65, 127, 128, 129, 221, 222, 223, 224, 225, 252, 253, 254, 255, 256, 257};
	int64_t v;
	switch (r.below(4)) {
	case 0: v = r.pick(edges); break;
	case 1: v = r.range(0, 8); break;
	case 2: v = r.range(0, 40); break;
	default: v = r.range(0, max); break;
	}
	return v > max ? max : v;
}
// message made of zero runs, non-zero runs and bytes colliding with block codes
static inline Bytes gen_message(sim::Rng &r, size_t maxlen, bool allow_zero = true) {
	Bytes m;
	size_t target = (size_t) edgy(r, (int64_t) maxlen);
	if (r.chance(1, 6)) target = (size_t) r.range(0, (int64_t) maxlen);
	static const uint8_t coll[] = {0x01, 0x02, 0x1f, 0x20, 0xde, 0xdf, 0xe0, 0xe1, 0xfe, 0xff};
	int style = (int) r.below(5);
	while (m.size() < target) {
		size_t run = (size_t) edgy(r, 300);
		if (run == 0) run = 1;
		int kind = (int) r.below(allow_zero ? 4 : 3);
		for (size_t i = 0; i < run && m.size() < target; ++i) {
			uint8_t b;
			if (kind == 3) b = 0;
			else if (kind == 2) b = r.pick(coll);
			else if (style == 0) b = (uint8_t) (1 + (m.size() % 255));
			else b = (uint8_t) r.range(1, 255);
			m.push_back(b);
		}
		if (allow_zero && kind != 3 && r.chance(1, 3)) {
			size_t z = 1 + r.below(3);
			for (size_t i = 0; i < z && m.size() < target; ++i) m.push_back(0);
		}
	}
	if (!m.empty() && r.chance(1, 3)) {
		static const uint8_t lastb[] = {0x00, 0x01, 0x02, 0x05, 0x20, 0x7f, 0x80, 0xde, 0xdf, 0xe0, 0xe1, 0xfe, 0xff};
		uint8_t b = r.pick(lastb);
		if (b || allow_zero) m.back() = b;
	}
	return m;
}
