// world `arrays` (C04 + C05): histories over several handles that share
// copy-on-write buffers, judged against value-semantics vectors (C04) and an
// element life-cycle ledger (C05).  Allocation failures and failing element
// constructors are injected into the operation they are attached to.
#include "worlds/common.hpp"
#include "io.h"
#include <functional>

using namespace sim;
using namespace mpt;

enum { OP_CLONE, OP_RELEASE, OP_APPEND, OP_INSERT, OP_SET, OP_SLICE, OP_RESERVE, OP_REDUCE, OP_CUT, OP_BINSERT, OP_BSET,
       OP_PRINTF, OP_STRING, OP_FLAGGED, OP_SWRITE, OP_DETACH, OP_RETYPE,
       OP_X_ASSIGN, OP_X_APPEND, OP_X_INSERT, OP_X_SET, OP_X_RELEASE, OP_X_PRINTF, OP_X_TINSERT, OP_X_UINSERT, OP_X_TSET, OP_X_RESIZE, OP_X_RESERVE, OP_X_DETACH, OP_X_MAP, OP_X_PTRS, OP_B_SET, OP_B_INSERT, OP_B_CLONE, OP_B_RELEASE, OP_B_WRITE, OP_B_CUT };
static const char *const OPS[] = {"CLONE", "RELEASE", "APPEND", "INSERT", "SET", "SLICE", "RESERVE", "REDUCE", "CUT", "BINSERT", "BSET",
                                  "PRINTF", "STRING", "FLAGGED", "SWRITE", "DETACH", "RETYPE",
                                  "X_ASSIGN", "X_APPEND", "X_INSERT", "X_SET", "X_RELEASE", "X_PRINTF", "X_TINSERT", "X_UINSERT", "X_TSET", "X_RESIZE", "X_RESERVE", "X_DETACH", "X_MAP", "X_PTRS", "B_SET", "B_INSERT", "B_CLONE", "B_RELEASE", "B_WRITE", "B_CUT", 0};
enum { FL_NONE, FL_ALLOC, FL_INIT };
static const char *const FAULTS[] = {"none", "allocfail", "initfail", 0};
enum { K_RAW = 0, K_CHAR = 1, K_TRACKED = 2, K_CXX_BYTES = 3, K_CXX_TRACKED = 4, K_BUILTIN = 5 };

// ---------------------------------------------------------------- tracked elements (C05 ledger)
static const uint32_t MAGIC = 0x454c454du, POISON = 0xdeadbeefu;
struct Track {
	std::map<uint32_t, uint32_t> live;   // id -> value
	uint32_t next_id = 1, next_value = 1;
	uint64_t inits = 0, finis = 0, init_calls = 0, fail_at = 0, fired = 0; bool fail_from = false;
	size_t esize = 16;
} T;
static int elem_init(void *ptr, const void *src) {
	Harness h;
	++T.init_calls;
	if (T.fail_at && (T.init_calls == T.fail_at || (T.fail_from && T.init_calls > T.fail_at))) { ++T.fired; return -1; }
	uint32_t value = 0;
	if (src) {
		uint32_t m, id; memcpy(&m, src, 4); memcpy(&id, (const uint8_t *) src + 4, 4);
		if (m != MAGIC || !T.live.count(id)) { pend("copy-from-dead", "element copy-constructed from memory that holds no live element (magic %08x id %u)", m, id); return -1; }
		value = T.live[id];
	}
	uint32_t id = T.next_id++;
	memset(ptr, 0, T.esize);
	memcpy(ptr, &MAGIC, 4); memcpy((uint8_t *) ptr + 4, &id, 4);
	T.live[id] = value; ++T.inits;
	return 0;
}
static void elem_fini(void *ptr) {
	Harness h;
	uint32_t m, id; memcpy(&m, ptr, 4); memcpy(&id, (uint8_t *) ptr + 4, 4);
	if (m == POISON) { pend("double-destroy", "element destroyed twice (id %u)", id); return; }
	if (m != MAGIC || !T.live.count(id)) { pend("destroy-non-element", "destructor called on memory that holds no live element (magic %08x id %u)", m, id); return; }
	T.live.erase(id); ++T.finis;
	memcpy(ptr, &POISON, 4);
}
static const type_traits TRAITS8(8, elem_fini, elem_init), TRAITS16(16, elem_fini, elem_init), TRAITS24(24, elem_fini, elem_init), TRAITS40(40, elem_fini, elem_init);
static const type_traits OTHER16(16, elem_fini, elem_init); // same size and finaliser as TRAITS16: "compatible" by the library's rule
static const type_traits *tracked_traits(size_t es) { return es == 8 ? &TRAITS8 : es == 24 ? &TRAITS24 : es == 40 ? &TRAITS40 : &TRAITS16; }

// C++ element with the same ledger: used by the container templates (unique_array, typed_array, map)
// values of config items: metatypes that count the references elements hold on them
struct CObj : public metatype {
	long refs = 1; int nr;
	explicit CObj(int n) : nr(n) { }
	int convert(type_t t, void *ptr) override { if (t == TypeMetaPtr) { if (ptr) *(metatype **) ptr = this; return 0; } return BadType; }
	void unref() override { Harness h; if (--refs <= 0) pend("double-destroy", "an element released a reference on value object %d it did not hold", nr); }
	uintptr_t addref() override { Harness h; return (uintptr_t) ++refs; }
	metatype *clone() const override { return 0; }
};
// a value that cannot be shared (as the library's small text metatypes): it has one owner, a copy of the item must do without it
struct UObj;
static std::set<UObj *> g_uobj_live;
struct UObj : public metatype {
	uint32_t nr;
	explicit UObj(uint32_t n) : nr(n) { g_uobj_live.insert(this); }
	int convert(type_t t, void *ptr) override { if (t == TypeMetaPtr) { if (ptr) *(metatype **) ptr = this; return 0; } return BadType; }
	void unref() override { Harness h; if (!g_uobj_live.erase(this)) pend("double-destroy", "the unshareable value of item %u was released twice", nr); }      // (the memory stays until the run ends)
	uintptr_t addref() override { return 0; }
	metatype *clone() const override { return 0; }
};
// active commands: finalising one calls its function with a null event, exactly once
// a config item as the C side lays it out (the C++ class hides the members behind its bases)
struct CItem { buffer *elements; metatype *value; identifier id; };
static std::set<uint32_t> g_cmd_live;
static int cmd_token_fn(void *arg, void *ev) {
	Harness h;
	if (ev) return 0;
	uint32_t t = (uint32_t) (uintptr_t) arg;
	if (!g_cmd_live.erase(t)) pend("double-destroy", "command %u was finalised twice (or never was an element)", t);
	return 0;
}
struct Tracked {
	uint32_t magic, id;
	Tracked() { reg(0); }
	explicit Tracked(uint32_t value) { reg(value); }
	Tracked(const Tracked &o) { Harness h; uint32_t v = 0; if (o.magic != MAGIC || !T.live.count(o.id)) pend("copy-from-dead", "C++ element copy-constructed from a dead element (magic %08x id %u)", o.magic, o.id); else v = T.live[o.id]; reg(v); }
	Tracked &operator=(const Tracked &o) {
		Harness h;
		if (magic != MAGIC || !T.live.count(id)) { pend("assign-to-dead", "assignment to memory that holds no live element (magic %08x id %u)", magic, id); return *this; }
		if (o.magic != MAGIC || !T.live.count(o.id)) { pend("copy-from-dead", "assignment from a dead element"); return *this; }
		T.live[id] = T.live[o.id];
		return *this;
	}
	bool operator==(const Tracked &o) const { return T.live.count(id) && T.live.count(o.id) && T.live[id] == T.live[o.id]; }
	~Tracked() {
		Harness h;
		if (magic == POISON) { pend("double-destroy", "C++ element destroyed twice (id %u)", id); return; }
		if (magic != MAGIC || !T.live.count(id)) { pend("destroy-non-element", "destructor called on memory that holds no live element (magic %08x id %u)", magic, id); return; }
		T.live.erase(id); ++T.finis; magic = POISON;
	}
private:
	void reg(uint32_t v) { Harness h; magic = MAGIC; id = T.next_id++; T.live[id] = v; ++T.inits; }
};

struct CArr { buffer *buf; };
static inline array *AR(CArr &c) { return reinterpret_cast<array *>(&c); }

struct ArraysWorld : World {
	const type_traits *chartraits = 0;
	ArraysWorld() { chartraits = mpt_type_traits('c'); }
	const char *name() const override { return "arrays"; }
	const char *const *opnames() const override { return OPS; }
	const char *const *faultnames() const override { return FAULTS; }
	const char *const *shrinkable_cfg() const override { static const char *const k[] = {"nh", "oracle", 0}; return k; }
	const char *components_json() const override {
		return "{\"real\":[\"_mpt_buffer_alloc and its vtable (detach, addref, unref, get_flags)\",\"mpt_array_clone/append/insert/set/slice/reserve/reduce\",\"mpt_buffer_insert/cut/set\","
		       "\"mpt_printf\",\"mpt_array_string\",\"mpt_slice_write\",\"character type traits from the registry\"],"
		       "\"stub\":[\"allocator (ledger + n-th allocation fails)\",\"element traits {init,fini,size} with a live-element ledger keyed by an id stored in the element; k-th constructor call fails\","
		       "\"std::vector reference model per handle\"]}";
	}

	void gen(Rng &r, Plan &p, int tier) override {
		int kind = sim::g_mode == 1 ? (int) r.below(2) : sim::g_mode == 2 ? K_TRACKED : (int) r.below(3);
		if (r.chance(1, 4)) kind = sim::g_mode == 1 ? (r.chance(2, 3) ? K_CXX_BYTES : K_CXX_TRACKED) : sim::g_mode == 2 ? K_CXX_TRACKED : (r.chance(1, 2) ? K_CXX_BYTES : K_CXX_TRACKED);   // the typed containers carry C04's value semantics as well
		p.set("kind", kind);
		if (sim::g_mode != 1 && r.chance(1, 5)) {
			// buffers of the library's own managed element types: identifiers (inline / allocated names), arrays (elements hold buffer references)
			p.set("kind", K_BUILTIN); p.set("btype", r.below(4)); p.set("nh", 3);
			int nops = (int) r.range(1, tier ? 80 : 40); bool allocf = r.chance(1, 3);
			for (int i = 0; i < nops; ++i) {
				Op op; static const int ops[] = {OP_B_SET, OP_B_SET, OP_B_SET, OP_B_INSERT, OP_B_INSERT, OP_B_CLONE, OP_B_CLONE, OP_B_RELEASE, OP_B_WRITE, OP_B_WRITE, OP_B_CUT};
				op.kind = r.pick(ops); op.a = r.below(3) | (r.below(3) << 8); op.b = r.below(12) | (r.below(5) << 8) | (r.below(4) << 16); op.c = r.below(100000);
				if (allocf && r.chance(1, 4)) { op.fault = FL_ALLOC; op.fa = r.range(1, 4); }
				p.ops.push_back(op);
			}
			return;
		}
		if (kind >= K_CXX_BYTES) { gen_cxx(r, p, tier, kind); return; }
		p.set("nh", r.range(2, 4));
		static const int es[] = {8, 16, 24, 40};
		p.set("esize", kind == K_TRACKED ? r.pick(es) : 1);
		int nops = (int) r.range(1, tier ? 120 : 50);
		bool allocf = r.chance(1, 3), initf = kind == K_TRACKED && r.chance(1, 3);
		p.set("faults", (allocf ? 1 : 0) | (initf ? 2 : 0));
		for (int i = 0; i < nops; ++i) {
			Op op;
			static const int raw_ops[] = {OP_CLONE, OP_CLONE, OP_RELEASE, OP_APPEND, OP_APPEND, OP_INSERT, OP_INSERT, OP_SLICE, OP_SLICE, OP_RESERVE, OP_REDUCE, OP_CUT, OP_BINSERT, OP_BSET, OP_SET, OP_FLAGGED, OP_SWRITE, OP_DETACH};
			static const int chr_ops[] = {OP_CLONE, OP_CLONE, OP_RELEASE, OP_SET, OP_SET, OP_INSERT, OP_SLICE, OP_RESERVE, OP_REDUCE, OP_CUT, OP_PRINTF, OP_PRINTF, OP_STRING, OP_APPEND, OP_BSET, OP_DETACH, OP_FLAGGED};
			static const int trk_ops[] = {OP_CLONE, OP_CLONE, OP_RELEASE, OP_SET, OP_SET, OP_INSERT, OP_SLICE, OP_RESERVE, OP_REDUCE, OP_CUT, OP_CUT, OP_BINSERT, OP_BSET, OP_APPEND, OP_FLAGGED, OP_DETACH, OP_RETYPE};
			op.kind = kind == K_RAW ? r.pick(raw_ops) : kind == K_CHAR ? r.pick(chr_ops) : r.pick(trk_ops);
			op.a = r.below(4) | (r.below(4) << 8);      // handle, second handle
			op.b = r.below(10) | (r.range(0, 2) << 8) | ((r.chance(1, 8) ? 1 : 0) << 12) | (r.below(10) << 16) | (r.range(0, 2) << 24); // position selector/delta, misalign, length selector/delta
			op.c = r.below(100000);
			if (allocf && r.chance(1, 4)) { op.fault = FL_ALLOC; op.fa = r.range(1, 3); }
			else if (initf && r.chance(1, 4)) { op.fault = FL_INIT; op.fa = r.range(1, 6) | (r.chance(1, 3) ? 0x100 : 0); /* 0x100: every constructor call from there on fails */ }
			p.ops.push_back(op);
		}
	}

	void gen_cxx(Rng &r, Plan &p, int tier, int kind) {
		p.set("nh", 3); p.set("esize", 1); p.set("faults", 0);
		int nops = (int) r.range(1, tier ? 100 : 45);
		bool allocf = r.chance(1, 3);
		for (int i = 0; i < nops; ++i) {
			Op op;
			static const int b_ops[] = {OP_X_ASSIGN, OP_X_ASSIGN, OP_X_APPEND, OP_X_APPEND, OP_X_INSERT, OP_X_INSERT, OP_X_SET, OP_X_SET, OP_X_RELEASE, OP_X_PRINTF, OP_X_TINSERT, OP_X_TINSERT, OP_X_TSET, OP_X_RESIZE, OP_X_RESIZE, OP_X_RESERVE, OP_X_DETACH};
			static const int t_ops[] = {OP_X_ASSIGN, OP_X_ASSIGN, OP_X_TINSERT, OP_X_TINSERT, OP_X_UINSERT, OP_X_TSET, OP_X_TSET, OP_X_RESIZE, OP_X_RESERVE, OP_X_DETACH, OP_X_RELEASE, OP_X_MAP, OP_X_PTRS};
			op.kind = kind == K_CXX_BYTES ? r.pick(b_ops) : r.pick(t_ops);
			op.a = r.below(3) | (r.below(3) << 8);
			op.b = r.below(10) | (r.range(0, 2) << 8) | (r.below(10) << 16) | (r.range(0, 2) << 24);
			op.c = r.below(100000);
			if (allocf && r.chance(1, 4)) { op.fault = FL_ALLOC; op.fa = r.range(1, 3); }
			p.ops.push_back(op);
		}
	}
	// ---------------------------------------------------------------- run state
	struct Model { bool has = false; std::vector<uint32_t> v; };   // bytes (raw/char) or element values (tracked)
	int kind = 0; size_t ES = 1; const type_traits *traits = 0;
	CArr H[4]; Model M[4]; int nh = 2;

	// read a handle through its buffer header (the public C view of an array)
	bool read_handle(int h, std::vector<uint32_t> &out, std::string &why) {
		out.clear();
		buffer *b = H[h].buf;
		if (!b) return true;
		if (b->_used > b->_size) { why = "used beyond capacity"; return false; }
		const uint8_t *base = (const uint8_t *) (b + 1);
		if (kind != K_TRACKED) { for (size_t i = 0; i < b->_used; ++i) out.push_back(base[i]); return true; }
		if (b->_used % ES) { why = "used size not a multiple of the element size"; return false; }
		for (size_t i = 0; i < b->_used; i += ES) {
			uint32_t m, id; memcpy(&m, base + i, 4); memcpy(&id, base + i + 4, 4);
			if (m != MAGIC || !T.live.count(id)) {
				char buf[128]; snprintf(buf, sizeof buf, "element %zu of %zu is not alive (magic %08x id %u)", i / ES, b->_used / ES, m, id);
				why = buf; return false;
			}
			out.push_back(T.live[id]);
		}
		return true;
	}
	void verify(const char *after, int operated, bool op_failed_typed, Log &log) {
		check_pending();
		std::set<uint32_t> seen_ids; std::set<const buffer *> seen_bufs;
		for (int h = 0; h < nh; ++h) {
			std::vector<uint32_t> got; std::string why;
			if (!read_handle(h, got, why)) fail(kind == K_TRACKED ? "dead-element" : "state", "after %s: handle %d: %s", after, h, why.c_str());
			if (h == operated && op_failed_typed) { M[h].v = got; M[h].has = H[h].buf != 0; }
			if (got != M[h].v) {
				size_t d = 0; while (d < got.size() && d < M[h].v.size() && got[d] == M[h].v[d]) ++d;
				fail(h == operated ? "wrong-content" : "other-handle-changed", "after %s on handle %d: handle %d reads %zu %s, a value-semantics vector holds %zu (first difference at %zu: got %x want %x)",
				     after, operated, h, got.size(), kind == K_TRACKED ? "elements" : "bytes", M[h].v.size(), d, d < got.size() ? got[d] : 0xffffffffu, d < M[h].v.size() ? M[h].v[d] : 0xffffffffu);
			}
			// raw duplication of elements shows up as one id in two buffers
			buffer *b = H[h].buf;
			if (kind == K_TRACKED && b && !seen_bufs.count(b)) {
				seen_bufs.insert(b);
				const uint8_t *base = (const uint8_t *) (b + 1);
				for (size_t i = 0; i + ES <= b->_used; i += ES) { uint32_t id; memcpy(&id, base + i + 4, 4); if (!seen_ids.insert(id).second) fail("raw-duplicate", "after %s: element id %u exists twice (raw byte copy instead of copy construction)", after, id); }
			}
		}
		if (kind == K_TRACKED && seen_ids.size() != T.live.size())
			fail("element-leak", "after %s: %zu elements alive, %zu reachable through the handles (constructed and never destroyed)", after, T.live.size(), seen_ids.size());
	}
	size_t used(int h) { return H[h].buf ? H[h].buf->_used : 0; }
	size_t capacity(int h) { return H[h].buf ? H[h].buf->_size : 0; }
	bool shared(int h) { return H[h].buf && (H[h].buf->get_flags() & BufferShared); }
	// position/length in units, relative to used and capacity
	size_t sel(unsigned s, int delta, size_t usedu, size_t capu, uint64_t rnd) {
		int64_t v;
		switch (s % 10) {
		case 0: v = 0; break; case 1: v = 1; break; case 2: v = (int64_t) usedu + delta - 1; break; case 3: v = (int64_t) usedu; break;
		case 4: v = (int64_t) capu + delta - 1; break; case 5: v = (int64_t) usedu / 2; break; case 6: v = (int64_t) (rnd % 7); break;
		case 7: v = (int64_t) (rnd % 40); break; case 8: v = (int64_t) capu + 1 + (int64_t) (rnd % 5); break; default: v = (int64_t) (rnd % 300); break;
		}
		return v < 0 ? 0 : (size_t) v;
	}
	std::vector<uint32_t> fresh(size_t n) { std::vector<uint32_t> v(n); for (auto &x : v) x = kind == K_TRACKED ? T.next_value++ : (uint32_t) (1 + (T.next_value++ % 250)); return v; }
	// harness writes/constructs `vals` at ptr (raw region handed out by the library)
	void put(uint8_t *ptr, const std::vector<uint32_t> &vals) {
		for (size_t i = 0; i < vals.size(); ++i) {
			if (kind != K_TRACKED) { ptr[i] = (uint8_t) vals[i]; continue; }
			uint32_t id = T.next_id++;
			uint8_t *e = ptr + i * ES;
			memset(e, 0, ES); memcpy(e, &MAGIC, 4); memcpy(e + 4, &id, 4);
			T.live[id] = vals[i]; ++T.inits;
		}
	}

	void exec(const Plan &p, Log &log, Stats &st) override {
		kind = (int) p.get("kind") % 6; nh = (int) std::min<int64_t>(std::max<int64_t>(p.get("nh", 2), 1), 4);
		if (kind == K_BUILTIN) { exec_builtin(p, log, st); return; }
		if (kind == K_CXX_BYTES) { exec_cxx_bytes(p, log, st); return; }
		if (kind == K_CXX_TRACKED) { exec_cxx_tracked(p, log, st); return; }
		ES = kind == K_TRACKED ? (size_t) p.get("esize", 16) : 1;
		if (kind == K_TRACKED && ES != 8 && ES != 16 && ES != 24 && ES != 40) ES = 16;
		traits = kind == K_TRACKED ? tracked_traits(ES) : kind == K_CHAR ? chartraits : 0;
		T = Track(); T.esize = ES;
		for (int h = 0; h < 4; ++h) { H[h].buf = 0; M[h] = Model(); }
		log.ev("arrays kind=%d esize=%zu handles=%d", kind, ES, nh);
		st.hit(kind == K_RAW ? "kind:raw" : kind == K_CHAR ? "kind:char" : "kind:tracked");
		struct Cleanup { ArraysWorld *w; ~Cleanup() { for (int h = 0; h < 4; ++h) w->H[h].buf = 0; } } cl{this};

		for (const Op &op : p.ops) {
			int h = (int) (op.a & 0xff) % nh, h2 = (int) ((op.a >> 8) & 0xff) % nh;
			unsigned psel = op.b & 0xff, pdelta = (op.b >> 8) & 0xf, mis = (op.b >> 12) & 1, lsel = (op.b >> 16) & 0xff, ldelta = (op.b >> 24) & 0xf;
			size_t usedu = used(h) / ES, capu = capacity(h) / ES;
			size_t posu = sel(psel, (int) pdelta, usedu, capu, (uint64_t) op.c), lenu = sel(lsel, (int) ldelta, usedu, capu, (uint64_t) op.c / 7);
			if (lenu > 400) lenu = 400;
			if (posu > 600) posu = 600;
			size_t pos = posu * ES, len = lenu * ES;
			bool misaligned = mis && ES > 1;
			if (misaligned) { if (op.c & 1) pos += 1 + (size_t) op.c % (ES - 1); else len += 1 + (size_t) op.c % (ES - 1); }
			uint64_t failn = op.fault == FL_ALLOC ? (uint64_t) std::max<int64_t>(op.fa, 1) : 0;
			T.init_calls = 0; T.fired = 0; T.fail_at = op.fault == FL_INIT ? (uint64_t) std::max<int64_t>(op.fa & 0xff, 1) : 0; T.fail_from = op.fault == FL_INIT && (op.fa & 0x100);
			bool was_shared = shared(h);
			std::vector<uint32_t> &m = M[h].v;
			bool failed = false, typed_fail = false; uint64_t afired = 0;
			const char *name = OPS[op.kind];
			st.hit(std::string("op:") + name);
			switch (op.kind) {
			case OP_CLONE: {
				int rc; { Sut s(failn); rc = mpt_array_clone(AR(H[h]), AR(H[h2])); afired = g.fired; }
				log.ev("CLONE %d <- %d -> %d", h, h2, rc);
				if (rc >= 0) { M[h] = M[h2]; } else failed = true;
				break;
			}
			case OP_RELEASE: {
				int rc; { Sut s; rc = mpt_array_clone(AR(H[h]), 0); }
				log.ev("RELEASE %d -> %d", h, rc);
				if (H[h].buf) fail("state", "release left a buffer attached");
				M[h] = Model();
				break;
			}
			case OP_APPEND: if (kind == K_RAW && H[h].buf && used(h) && (op.c % 11) == 3) {
				// the appended bytes are part of the array's own content (the pointer handed in lies inside its buffer)
				size_t u = used(h), so = (size_t) (op.c / 11) % u, sl = 1 + (size_t) (op.c / 7) % (u - so);
				std::vector<uint32_t> own(m.begin() + so, m.begin() + so + sl);
				const uint8_t *ptr = (const uint8_t *) (H[h].buf + 1) + so;
				void *r; { Sut s(failn); r = mpt_array_append(AR(H[h]), sl, ptr); afired = g.fired; }
				log.ev("APPEND %d its own bytes [%zu,+%zu) of %zu -> %s", h, so, sl, u, r ? "ok" : "null");
				st.hit("probe:append_own_content");
				if (!r) failed = true; else m.insert(m.end(), own.begin(), own.end());
				break;
			} else {
				std::vector<uint32_t> vals = fresh(len);
				bool zero = (op.c % 5) == 0;
				Block src(len, 0); for (size_t i = 0; i < len; ++i) src.p[i] = (uint8_t) vals[i];
				void *r; { Sut s(failn); r = mpt_array_append(AR(H[h]), len, zero ? 0 : src.p); afired = g.fired; }
				log.ev("APPEND %d len=%zu%s -> %s", h, len, zero ? " zeros" : "", r ? "ok" : "null");
				bool typed = kind != K_RAW && H[h].buf;
				if (typed && M[h].has) { if (r && len) fail("accepted-invalid", "append of raw bytes accepted on a typed array"); failed = !r; }
				else if (!r) failed = true;
				else if (kind != K_RAW) { /* created a raw buffer on an empty handle of a typed run: drop it again to keep the run typed */
					{ Sut s; mpt_array_clone(AR(H[h]), 0); } M[h] = Model(); }
				else { if (zero) for (auto &x : vals) x = 0; m.insert(m.end(), vals.begin(), vals.end()); M[h].has = M[h].has || H[h].buf; }
				break;
			}
			case OP_INSERT: {
				if (kind != K_RAW && !H[h].buf) break; // would create a raw buffer
				void *r; { Sut s(failn); r = mpt_array_insert(AR(H[h]), pos, len); afired = g.fired; }
				log.ev("INSERT %d pos=%zu len=%zu%s -> %s", h, pos, len, misaligned ? " misaligned" : "", r ? "ok" : "null");
				if (misaligned && r && (pos % ES || len % ES) && len) fail("accepted-invalid", "insert at byte %zu of %zu bytes accepted on elements of %zu bytes", pos, len, ES);
				if (!r) { failed = true; typed_fail = kind == K_TRACKED; break; }
				if (misaligned) { typed_fail = true; failed = true; break; }
				{
					size_t pu = pos / ES, lu = len / ES;
					if (pu > m.size()) m.resize(pu, 0);
					std::vector<uint32_t> vals = fresh(lu);
					put((uint8_t *) r, vals);
					m.insert(m.begin() + pu, vals.begin(), vals.end());
					M[h].has = true;
				}
				break;
			}
			case OP_SET: {
				if (kind == K_RAW) {
					// raw buffers carry no element type: any typed set must be refused
					if (!H[h].buf) break;
					void *r; { Sut s(failn); r = mpt_array_set(AR(H[h]), chartraits, len, 0, (long) posu); afired = g.fired; }
					log.ev("SET(typed on raw) %d -> %s", h, r ? "ok" : "null");
					if (r) fail("accepted-invalid", "typed set accepted on a raw array");
					failed = true; break;
				}
				if (kind != K_RAW && (op.c % 13) == 5 && usedu > 0 && !misaligned && H[h].buf) {
					// the source is one of the array's own elements (the pointer handed in lies inside the buffer): the target slot becomes a copy of
					// it, wherever the elements are after the call - at the end of the data this makes the buffer grow
					size_t q = (size_t) (op.c / 13) % usedu, pu = (op.c & 1) ? usedu : posu;
					// (one element, or a run of them that may overlap the slots it is assigned to - the element onto itself included)
					size_t cnt = (op.c & 2) ? 1 : 1 + (size_t) (op.c / 29) % (usedu - q); if (cnt > 6) cnt = 6;
					std::vector<uint32_t> want(m.begin() + q, m.begin() + q + cnt);
					const uint8_t *own = (const uint8_t *) (H[h].buf + 1) + q * ES;
					void *r; { Sut s(failn); r = mpt_array_set(AR(H[h]), traits, cnt * ES, own, (long) pu); afired = g.fired; }
					log.ev("SET %d off=%zu from its own elements [%zu,+%zu) of %zu -> %s", h, pu, q, cnt, usedu, r ? "ok" : "null");
					st.hit(pu < q + cnt && q < pu + cnt ? "probe:set_from_overlapping_own_elements" : "probe:set_from_own_element");
					if (!r) { failed = true; typed_fail = kind == K_TRACKED; break; }
					if (pu + cnt > m.size()) m.resize(pu + cnt, 0);
					for (size_t i = 0; i < cnt; ++i) m[pu + i] = want[i];
					M[h].has = true;
					break;
				}
				bool nul = (op.c % 4) == 0;
				bool fromend = (op.c % 6) == 1 && usedu;
				long off = fromend ? -(long) (1 + (size_t) op.c % usedu) : (long) posu;
				size_t pu = fromend ? usedu - (size_t) (-off) : posu;
				size_t lu = len / ES; if (misaligned) lu = 0;
				std::vector<uint32_t> vals = fresh(lu);
				Block src(lu * ES + (misaligned ? ES : 0), 0);
				std::vector<uint32_t> tmp_ids;
				if (kind == K_TRACKED) { uint32_t first = T.next_id; put(src.p, vals); for (uint32_t id = first; id < T.next_id; ++id) tmp_ids.push_back(id); }
				else for (size_t i = 0; i < lu; ++i) src.p[i] = (uint8_t) vals[i];
				size_t blen = misaligned ? lu * ES + 1 + (size_t) op.c % (ES - 1) : lu * ES;
				void *r; { Sut s(failn); r = mpt_array_set(AR(H[h]), traits, blen, nul ? 0 : src.p, off); afired = g.fired; }
				log.ev("SET %d off=%ld elems=%zu%s%s -> %s", h, off, lu, nul ? " default" : "", misaligned ? " misaligned" : "", r ? "ok" : "null");
				// temporaries of the harness go away again
				for (uint32_t id : tmp_ids) { T.live.erase(id); ++T.finis; }
				if (misaligned) { if (r) fail("accepted-invalid", "set of %zu bytes accepted on elements of %zu bytes", blen, ES); failed = true; break; }
				if (!r) { failed = true; typed_fail = kind == K_TRACKED; break; }
				if (pu + lu > m.size()) m.resize(pu + lu, 0);
				for (size_t i = 0; i < lu; ++i) m[pu + i] = nul ? 0 : vals[i];
				M[h].has = true;
				break;
			}
			case OP_SLICE: {
				if (kind != K_RAW && !H[h].buf) break;
				void *r; { Sut s(failn); r = mpt_array_slice(AR(H[h]), pos, len); afired = g.fired; }
				log.ev("SLICE %d off=%zu len=%zu%s -> %s", h, pos, len, misaligned ? " misaligned" : "", r ? "ok" : "null");
				if (misaligned && r && (pos % ES || len % ES)) fail("accepted-invalid", "slice at byte %zu of %zu bytes accepted on elements of %zu bytes", pos, len, ES);
				if (!r || misaligned) { failed = true; typed_fail = kind == K_TRACKED; break; }
				{
					size_t pu = pos / ES, lu = len / ES;
					if (pu + lu > m.size()) m.resize(pu + lu, 0);
					M[h].has = true;
					if (shared(h)) fail("still-shared", "slice handed out a writable region of a buffer that is still shared");
					if (kind != K_TRACKED) { std::vector<uint32_t> vals = fresh(lu); put((uint8_t *) r, vals); for (size_t i = 0; i < lu; ++i) m[pu + i] = vals[i]; }
				}
				break;
			}
			case OP_RESERVE: {
				if ((op.c % 31) == 7) {
					// sizes and offsets no allocation can satisfy: every entry point refuses, nothing changes (the size arithmetic must not wrap)
					size_t big = SIZE_MAX - (size_t) (op.c % 200);
					void *r1, *r2, *r3, *r5; buffer *r4;
					{ Sut s; r1 = mpt_array_slice(AR(H[h]), big, ES); }
					{ Sut s; r2 = mpt_array_insert(AR(H[h]), big - big % ES, ES); }
					{ Sut s; r3 = mpt_array_append(AR(H[h]), big - big % ES, 0); }
					{ Sut s; r4 = mpt_array_reserve(AR(H[h]), big - big % ES, traits); }
					{ Sut s; r5 = mpt_array_slice(AR(H[h]), 0, big - big % ES); }
					if (kind != K_RAW && H[h].buf && ES >= 4) {
						// an element offset whose byte position wraps: refused (it must not land on some element inside the data)
						Block one(ES, 0); long hoff = (long) (SIZE_MAX / ES + 1 + (size_t) (op.c % 3)); if (op.c & 1) hoff = -hoff;
						std::vector<uint32_t> before = m; size_t ub = H[h].buf->_used;
						void *r6; { Sut s; r6 = mpt_array_set(AR(H[h]), traits, ES, (kind == K_TRACKED) ? 0 : one.p, hoff); }
						if (r6 || (H[h].buf && H[h].buf->_used != ub)) fail("accepted-invalid", "a set at element offset %ld (byte position beyond every buffer) was accepted: %s, %zu bytes used before, %zu after", hoff, r6 ? "non-null" : "null", ub, H[h].buf ? (size_t) H[h].buf->_used : 0);
					}
					log.ev("HUGE %d size %zx -> slice %s insert %s append %s reserve %s slice-len %s", h, big, r1 ? "ok" : "null", r2 ? "ok" : "null", r3 ? "ok" : "null", r4 ? "ok" : "null", r5 ? "ok" : "null");
					if (r1 || r2 || r3 || r4 || r5) fail("accepted-invalid", "a request of %zx bytes was accepted (slice-offset %d insert %d append %d reserve %d slice-length %d)", big, !!r1, !!r2, !!r3, !!r4, !!r5);
					st.hit("probe:huge_size_requested");
					if (kind == K_RAW && H[h].buf) {
						// a slice asked to take more blocks than any memory holds (the product wraps): refused, or whatever it reports is what its view grew by
						struct CSl { CArr a; uintptr_t off, len; } cs; cs.a.buf = 0; cs.off = 0; cs.len = used(h);
						int rc; { Sut s; rc = mpt_array_clone(AR(cs.a), AR(H[h])); }
						if (rc >= 0) {
							size_t bs = 8u << (op.c % 3), nb = SIZE_MAX / bs + 1 + (size_t) (op.c % 3), l0 = cs.len;
							ssize_t w; { Sut s; w = mpt_slice_write(reinterpret_cast<slice *>(&cs), nb, 0, bs); }
							log.ev("HUGE %d slice write of %zx blocks of %zu -> %zd (view %zu -> %zu)", h, nb, bs, w, l0, (size_t) cs.len);
							if (w >= 0 && (size_t) w > (SIZE_MAX - l0) / bs) fail("accepted-invalid", "a slice write of %zx blocks of %zu bytes reports %zd blocks taken", nb, bs, w);
							if (w >= 0 && cs.len != l0 + (size_t) w * bs) fail("wrong-content", "a slice write reports %zd blocks of %zu bytes, the view grew from %zu to %zu bytes", w, bs, l0, (size_t) cs.len);
							{ Sut s; mpt_array_clone(AR(cs.a), 0); }
						}
					}
					break;
				}
				bool other = (op.c % 5) == 0;
				const type_traits *tt = traits;
				if (other) tt = kind == K_RAW ? chartraits : (kind == K_CHAR ? 0 : (ES == 16 && (op.c & 32) ? &OTHER16 : 0));
				// a type that shares the finaliser but not the element size is another type: the old elements are finalised, none is reinterpreted
				if (other && kind == K_TRACKED && !tt && (op.c & 64)) { tt = ES == 8 ? &TRAITS16 : &TRAITS8; st.hit("probe:retype_same_finaliser_other_size"); }
				bool nocopy = H[h].buf && (H[h].buf->get_flags() & BufferNoCopy) != 0;
				buffer *r; { Sut s(failn); r = mpt_array_reserve(AR(H[h]), len, tt); afired = g.fired; }
				if (r && nocopy && !r->_used) m.clear();
				log.ev("RESERVE %d len=%zu%s -> %s", h, len, other ? " other-type" : "", r ? "ok" : "null");
				if (!r) {
					failed = true; typed_fail = kind == K_TRACKED;
					// a change of content type discards the old content by design; if the request then fails for lack of
					// memory the handle may already be empty (nothing in the statement forbids that)
					if (tt != traits && afired && !used(h)) m.clear();
					break;
				}
				if (r != H[h].buf) fail("state", "reserve returned a buffer that is not the handle's");
				if (shared(h)) fail("still-shared", "reserve returned a buffer that is still shared");
				if (r->_size < len) fail("state", "reserve(%zu) gives capacity %zu", len, r->_size);
				if (tt != traits) {
					// content of another type: the handle starts over; put it back to the run's type afterwards
					if (tt == &OTHER16) { /* compatible type: content kept */ size_t keep = (len + ES - 1) / ES; if (m.size() > keep) m.resize(keep); }
					else m.clear();
					{ Sut s; mpt_array_clone(AR(H[h]), 0); } M[h] = Model(); break;
				}
				{
					// "buffer satisfying requested type and space": content stays, as a vector's does on reserve - also when the request is
					// smaller than the content and whether or not another handle shares the buffer (a no-copy buffer that cannot be used in place is dropped)
					if (nocopy && !used(h)) m.clear();
					M[h].has = true;
				}
				break;
			}
			case OP_REDUCE: {
				{ Sut s(failn); mpt_array_reduce(AR(H[h])); afired = g.fired; }
				log.ev("REDUCE %d", h);
				break;
			}
			case OP_CUT: case OP_BINSERT: case OP_BSET: {
				// buffer-level calls through the documented protocol: make the buffer private first
				if (!H[h].buf) break;
				bool nocopy = (H[h].buf->get_flags() & BufferNoCopy) != 0;
				buffer *b; { Sut s; b = mpt_array_reserve(AR(H[h]), H[h].buf->_used, traits); }
				if (!b) { if (!T.fired && !nocopy) fail("refused-valid", "making the buffer private (reserve of its current size) was refused without any fault"); failed = true; typed_fail = kind == K_TRACKED; break; }
				// a no-copy buffer that cannot be used in place is replaced by an empty one (the flag forbids the copy)
				if (nocopy && !b->_used) m.clear();
				size_t ub = b->_used, cb = b->_size;
				if (op.kind == OP_CUT) {
					ssize_t rc; { Sut s; rc = mpt_buffer_cut(b, pos, len); }
					log.ev("CUT %d off=%zu len=%zu%s -> %zd (used %zu)", h, pos, len, misaligned ? " misaligned" : "", rc, ub);
					bool valid = len ? (pos <= ub && len <= ub - pos) : pos <= ub;
					if (misaligned && (pos % ES || len % ES)) valid = false;
					if (!valid) { if (rc >= 0) fail("accepted-invalid", "cut(off %zu, len %zu) accepted on %zu used bytes (element size %zu)", pos, len, ub, ES); failed = true; }
					else if (rc < 0) fail("refused-valid", "cut(off %zu, len %zu) refused (%zd) on %zu used bytes", pos, len, rc, ub);
					else if (len) m.erase(m.begin() + pos / ES, m.begin() + (pos + len) / ES);
					else m.resize(pos / ES);
				} else if (op.kind == OP_BINSERT) {
					void *r; { Sut s; r = mpt_buffer_insert(b, pos, len); }
					log.ev("BINSERT %d pos=%zu len=%zu%s -> %s (used %zu cap %zu)", h, pos, len, misaligned ? " misaligned" : "", r ? "ok" : "null", ub, cb);
					size_t total = std::max(pos, ub) + len;
					bool valid = total <= cb && !(misaligned && (pos % ES || len % ES));
					if (!valid) { if (r && total) fail("accepted-invalid", "buffer insert(pos %zu, len %zu) accepted with used %zu capacity %zu (element size %zu)", pos, len, ub, cb, ES); failed = true; typed_fail = kind == K_TRACKED; }
					else if (!r) { if (T.fired) { failed = true; typed_fail = true; } else fail("refused-valid", "buffer insert(pos %zu, len %zu) refused with used %zu capacity %zu", pos, len, ub, cb); }
					else if (total) {
						size_t pu = pos / ES, lu = len / ES;
						if (pu > m.size()) m.resize(pu, 0);
						std::vector<uint32_t> vals = fresh(lu);
						put((uint8_t *) r, vals);
						m.insert(m.begin() + pu, vals.begin(), vals.end());
					}
				} else {
					size_t lu = misaligned ? 0 : len / ES;
					std::vector<uint32_t> vals = fresh(lu);
					Block src(lu * ES + ES, 0); std::vector<uint32_t> tmp_ids;
					if (kind == K_TRACKED) { uint32_t first = T.next_id; put(src.p, vals); for (uint32_t id = first; id < T.next_id; ++id) tmp_ids.push_back(id); }
					else for (size_t i = 0; i < lu; ++i) src.p[i] = (uint8_t) vals[i];
					bool nul = (op.c % 4) == 0;
					long rc; { Sut s; rc = mpt_buffer_set(b, traits, pos, nul ? 0 : src.p, len); }
					for (uint32_t id : tmp_ids) { T.live.erase(id); ++T.finis; }
					log.ev("BSET %d pos=%zu len=%zu%s -> %ld (used %zu cap %zu)", h, pos, len, misaligned ? " misaligned" : "", rc, ub, cb);
					bool valid = pos + len <= cb && !(misaligned && (pos % ES || len % ES));
					if (!valid) { if (rc >= 0) fail("accepted-invalid", "buffer set(pos %zu, len %zu) accepted with capacity %zu (element size %zu)", pos, len, cb, ES); failed = true; }
					else if (rc < 0) { if (T.fired) { failed = true; typed_fail = true; } else fail("refused-valid", "buffer set(pos %zu, len %zu) refused (%ld) with capacity %zu", pos, len, rc, cb); }
					else if (T.fired) { failed = true; typed_fail = true; }
					else {
						size_t pu = pos / ES;
						if (pu + lu > m.size()) m.resize(pu + lu, 0);
						for (size_t i = 0; i < lu; ++i) m[pu + i] = nul ? 0 : vals[i];
					}
				}
				break;
			}
			case OP_PRINTF: {
				if (kind != K_CHAR) break;
				char text[160]; size_t n = (size_t) op.c % 150;
				for (size_t i = 0; i < n; ++i) text[i] = (char) ('a' + (op.c + i) % 26);
				text[n] = 0;
				int rc; { Sut s(failn); rc = mpt_printf(AR(H[h]), "%s", text); afired = g.fired; }
				log.ev("PRINTF %d %zu chars -> %d", h, n, rc);
				if (rc < 0) { failed = true; break; }
				if ((size_t) rc != n) fail("wrong-content", "printf of %zu characters reports %d", n, rc);
				for (size_t i = 0; i < n; ++i) m.push_back((uint8_t) text[i]);
				M[h].has = true;
				break;
			}
			case OP_STRING: {
				if (kind != K_CHAR || !H[h].buf) break;
				char *sp; { Sut s(failn); sp = mpt_array_string(AR(H[h])); afired = g.fired; }
				log.ev("STRING %d -> %s", h, sp ? "ok" : "null");
				if (!sp) { failed = true; break; }
				size_t z = 0; while (z < m.size() && m[z]) ++z;
				for (size_t i = 0; i < z; ++i) if ((uint8_t) sp[i] != m[i]) fail("wrong-content", "string view differs at %zu", i);
				if (sp[z]) fail("wrong-content", "string view not terminated after %zu characters", z);
				if (z == m.size()) { // no terminator in the content: one NUL may have been appended
					std::vector<uint32_t> got; std::string why; read_handle(h, got, why);
					if (got.size() == m.size() + 1 && got.back() == 0) m.push_back(0);
				}
				break;
			}
			case OP_FLAGGED: {
				// a handle gets a fresh buffer with user flags (immutable / no-copy), filled by the harness
				int flags = (op.c & 1 ? BufferImmutable : 0) | (op.c & 2 ? BufferNoCopy : 0);
				size_t nu = (size_t) op.c % 6; if (ES == 1) nu *= 41;      // (plain one-byte elements: content beyond the smallest allocation size, so that a later cut matters)
				{ Sut s; mpt_array_clone(AR(H[h]), 0); } M[h] = Model();
				buffer *b; { Sut s(failn); b = _mpt_buffer_alloc(nu * ES, flags); afired = g.fired; }
				log.ev("FLAGGED %d flags=%x elems=%zu -> %s", h, flags, nu, b ? "ok" : "null");
				if (!b) { failed = true; break; }
				b->_content_traits = traits;
				std::vector<uint32_t> vals = fresh(nu);
				put((uint8_t *) (b + 1), vals); b->_used = nu * ES;
				H[h].buf = b; M[h].v = vals; M[h].has = true;
				break;
			}
			case OP_DETACH: {
				// the buffer interface's own detach(size): private buffer of at least that capacity, content cut to it
				if (!H[h].buf) break;
				size_t u = H[h].buf->_used;
				bool nocopy = (H[h].buf->get_flags() & BufferNoCopy) != 0;
				buffer *nb; { Sut s(failn); nb = H[h].buf->detach(len); afired = g.fired; }
				log.ev("DETACH %d size=%zu (used %zu) -> %s", h, len, u, nb ? "ok" : "null");
				if (!nb) { failed = true; typed_fail = kind == K_TRACKED; if (!afired && !nocopy && !T.fired) fail("refused-valid", "detach(%zu) of a %zu byte buffer refused", len, u); break; }
				H[h].buf = nb;
				if (shared(h)) fail("still-shared", "detach returned a buffer that is still shared");
				if (nb->_size < len) fail("state", "detach(%zu) gives capacity %zu", len, nb->_size);
				// content is kept, or cut to the requested size when a new buffer had to be made (both keep the statement true)
				{ size_t keep = (len + ES - 1) / ES; if (m.size() > keep && nb->_used / ES == keep) m.resize(keep); }
				break;
			}
			case OP_RETYPE: {
				// the handle first holds content of a plain type (raw bytes or characters), then is primed for the managed type:
				// nothing of the old content may be taken for elements
				if (kind != K_TRACKED) break;
				{ Sut s; mpt_array_clone(AR(H[h]), 0); } M[h] = Model();
				size_t nb = 1 + (size_t) op.c % 100;
				bool aschar = (op.c & 1) != 0;
				void *r0;
				if (aschar) { Sut s; r0 = mpt_array_set(AR(H[h]), chartraits, nb, 0, 0); }
				else { Sut s; r0 = mpt_array_append(AR(H[h]), nb, 0); }
				if (!r0) { failed = true; break; }
				memset(r0, 0x5a, nb);
				buffer *r; { Sut s(failn); r = mpt_array_reserve(AR(H[h]), len, traits); afired = g.fired; }
				log.ev("RETYPE %d %s content of %zu bytes -> managed type, reserve(%zu) -> %s used=%zu", h, aschar ? "character" : "raw", nb, len, r ? "ok" : "null", r ? (size_t) r->_used : 0);
				if (!r) { { Sut s; mpt_array_clone(AR(H[h]), 0); } failed = true; break; }
				if (r->_content_traits != traits) fail("state", "reserve did not set the requested element type");
				M[h].has = true; M[h].v.clear();
				break;
			}
			case OP_SWRITE: {
				if (kind != K_RAW) break;
				// slice taken from handle h over [off, off+len) of its content, then written through
				size_t u = used(h);
				size_t so = u ? (size_t) op.c % (u + 1) : 0, sl = u > so ? ((size_t) (op.c / 3) % (u - so + 1)) : 0;
				struct CSlice { CArr a; uintptr_t off, len; } cs; cs.a.buf = 0; cs.off = so; cs.len = sl;
				// the slice either shares the buffer with the handle (clone) or takes it over (the handle gives it up): alone on a buffer the
				// writer appends in place, moves its view to the front when room runs out, and only then gets a new buffer
				bool takeover = ((op.b >> 12) & 1) == 0 && (op.c % 3) == 0 && H[h].buf;
				std::vector<uint32_t> view0(m.begin() + so, m.begin() + so + sl);
				if (takeover) { cs.a.buf = H[h].buf; H[h].buf = 0; M[h] = Model(); st.hit("probe:slice_takes_over_buffer"); }
				else { int rc; { Sut s; rc = mpt_array_clone(AR(cs.a), AR(H[h])); } if (rc < 0) break; }
				if (takeover) {
					// several writes in a row, interleaved with a request for room (element size 0)
					std::vector<uint32_t> want = view0; bool bad = false;
					for (int round = 0; round < 4 && !bad; ++round) {
						size_t nb = 1 + (size_t) (op.c >> round) % 4, bsz = 1 + (size_t) (op.c / (7 + round)) % 60;
						if (round == 2) {
							ssize_t q; { Sut s; q = mpt_slice_write(reinterpret_cast<slice *>(&cs), bsz, 0, 0); }
							log.ev("SWRITE(own) %d room for blocks of %zu -> %zd", h, bsz, q);
							if (q < 0) continue;
						} else if (round == 3 && !want.empty() && (op.c & 64)) {
							// the written block is part of the slice's own view (the pointer lies inside its buffer): the view grows by a copy of it,
							// wherever the writer had to move the view to make room
							size_t so = (size_t) (op.c / 17) % want.size(), sl2 = 1 + (size_t) (op.c / 19) % (want.size() - so);
							std::vector<uint32_t> own(want.begin() + so, want.begin() + so + sl2);
							const uint8_t *ptr = (const uint8_t *) (cs.a.buf + 1) + cs.off + so;
							ssize_t w; { Sut s; w = mpt_slice_write(reinterpret_cast<slice *>(&cs), 1, ptr, sl2); }
							log.ev("SWRITE(own) %d one block of %zu bytes from the view itself at %zu -> %zd", h, sl2, so, w); st.hit("probe:slice_write_own_content");
							if (w < 0) continue;
							if (w > 1) fail("wrong-content", "slice write reports %zd of 1 block", w);
							if (w == 1) want.insert(want.end(), own.begin(), own.end());
						} else {
							std::vector<uint32_t> vals = fresh(nb * bsz); Block src(nb * bsz, 0); for (size_t i = 0; i < vals.size(); ++i) src.p[i] = (uint8_t) vals[i];
							ssize_t w; { Sut s(round == 1 ? failn : 0); w = mpt_slice_write(reinterpret_cast<slice *>(&cs), nb, src.p, bsz); if (round == 1) afired = g.fired; }
							log.ev("SWRITE(own) %d view[%zu,+%zu) blocks=%zu x %zu -> %zd", h, (size_t) cs.off, (size_t) cs.len, nb, bsz, w);
							if (w > (ssize_t) nb) fail("wrong-content", "slice write reports %zd of %zu blocks", w, nb);
							if (w < 0) { if (!afired) fail("refused-valid", "slice write of %zu blocks of %zu bytes refused without allocation fault (%zd)", nb, bsz, w); continue; }
							want.insert(want.end(), vals.begin(), vals.begin() + (size_t) w * bsz);
						}
						buffer *sb = cs.a.buf;
						if (!sb || cs.off + cs.len > sb->_used || sb->_used > sb->_size) fail("state", "slice [%zu,+%zu) outside its buffer (used %zu size %zu)", (size_t) cs.off, (size_t) cs.len, sb ? (size_t) sb->_used : 0, sb ? (size_t) sb->_size : 0);
						if (cs.len != want.size()) fail("wrong-content", "slice view is %zu bytes, %zu were written to it", (size_t) cs.len, want.size());
						const uint8_t *base = (const uint8_t *) (sb + 1) + cs.off;
						for (size_t i = 0; i < want.size(); ++i) if (base[i] != want[i]) fail("wrong-content", "slice view byte %zu of %zu is %02x, want %02x", i, want.size(), base[i], want[i]);
					}
					{ Sut s; mpt_array_clone(AR(cs.a), 0); }
					break;
				}
				size_t nblk = 1 + (size_t) op.c % 5, bs = 1 + (size_t) (op.c / 11) % 40;
				std::vector<uint32_t> vals = fresh(nblk * bs);
				Block src(nblk * bs, 0); for (size_t i = 0; i < vals.size(); ++i) src.p[i] = (uint8_t) vals[i];
				std::vector<uint32_t> before(m.begin() + so, m.begin() + so + sl);
				ssize_t w; { Sut s(failn); w = mpt_slice_write(reinterpret_cast<slice *>(&cs), nblk, src.p, bs); afired = g.fired; }
				log.ev("SWRITE %d slice[%zu,+%zu) blocks=%zu x %zu -> %zd", h, so, sl, nblk, bs, w);
				if (w > (ssize_t) nblk) fail("wrong-content", "slice write reports %zd of %zu blocks", w, nblk);
				// the slice's own view: old view + w blocks
				if (w >= 0) {
					buffer *sb = cs.a.buf;
					if (!sb || cs.off + cs.len > sb->_used) fail("state", "slice [%zu,+%zu) outside its buffer after write", (size_t) cs.off, (size_t) cs.len);
					std::vector<uint32_t> want = before; want.insert(want.end(), vals.begin(), vals.begin() + (size_t) w * bs);
					if (cs.len != want.size()) fail("wrong-content", "slice view is %zu bytes after writing %zd blocks of %zu to a view of %zu", (size_t) cs.len, w, bs, before.size());
					const uint8_t *base = (const uint8_t *) (sb + 1) + cs.off;
					for (size_t i = 0; i < want.size(); ++i) if (base[i] != want[i]) fail("wrong-content", "slice view byte %zu is %02x, want %02x", i, base[i], want[i]);
				}
				{ Sut s; mpt_array_clone(AR(cs.a), 0); }
				failed = w < 0;
				break;
			}
			}
			if (afired) st.hit("fault:allocfail");
			if (T.fired) { st.hit("fault:initfail"); typed_fail = typed_fail || kind == K_TRACKED; }
			T.fail_at = 0;
			if (was_shared) st.hit("probe:op_on_shared_buffer");
			if (was_shared && !failed && H[h].buf && !shared(h)) st.hit("probe:detach_copied_shared_buffer");
			st.state(200 + op.kind, kind * 64 + (was_shared ? 32 : 0) + (misaligned ? 16 : 0) + (afired ? 8 : 0) + (T.fired ? 4 : 0), failed ? 0 : 1 + (posu > usedu) + 2 * (posu + lenu > capu));
			// under a failing constructor the statement (C05) constrains the element life cycle, not the values
			verify(name, h, (typed_fail && failed) || (kind == K_TRACKED && T.fired), log);
		}
		// teardown: every handle released, nothing may stay alive or allocated
		for (int h = 0; h < nh; ++h) { Sut s; mpt_array_clone(AR(H[h]), 0); }
		check_pending();
		if (kind == K_TRACKED && !T.live.empty()) fail("element-leak", "%zu element(s) still alive after the last handle was released", T.live.size());
		if (ledger_live()) fail("leak", "%zu block(s) still allocated after the last handle was released: %s", ledger_live(), ledger_describe().c_str());
		st.hit("elements_constructed", T.inits); st.hit("elements_destroyed", T.finis);
		log.ev("END inits=%llu finis=%llu", (unsigned long long) T.inits, (unsigned long long) T.finis);
	}

	// ================================================================ C++ layer: mpt::array on bytes
	// ================================================================ buffers of the library's own managed element types
	// identifiers: an element owns an allocation when its name does not fit inline; arrays: an element owns a buffer reference.
	// Oracle: every handle reads the names / inner buffers a value-semantics vector holds; what elements own is visible to the
	// ledger and AddressSanitizer (copied twice = double free, never finalised = block alive at the end, finalised early = use after free).
	void exec_builtin(const Plan &p, Log &log, Stats &st) {
		const int bt = (int) p.get("btype") & 3;
		const type_traits *tr = bt == 1 ? mpt_array_traits() : bt == 2 ? mpt_config_item_traits() : bt == 3 ? mpt_command_traits() : mpt_identifier_traits();
		const size_t es = tr->size;
		if (bt == 2 && es != sizeof(CItem)) fail("setup", "config item is %zu bytes, the harness' view of it %zu", es, sizeof(CItem));
		static const char *const btname[] = {"identifier", "array", "config item", "command"};
		CObj cobj0(0), cobj1(1), cobj2(2); CObj *cobj[3] = {&cobj0, &cobj1, &cobj2};
		g_cmd_live.clear();
		auto item_unshareable = [&](uint32_t v) { return v && v % 7 == 3; };
		auto item_obj = [&](uint32_t v) -> CObj * { return (v && (v % 4) && !item_unshareable(v)) ? cobj[v % 3] : 0; };
		std::vector<UObj *> uobjs; g_uobj_live.clear();
		struct Cu { std::vector<UObj *> *v; ~Cu() { for (UObj *u : *v) delete u; } } cu{&uobjs};
		bool fault_seen = false;      // after an allocation fault an item may have lost its name (the copy constructor ignores that): names and values are no longer compared, ownership still is
		CArr B[3] = {{0}, {0}, {0}}; std::vector<uint32_t> MB[3];
		struct Cl { CArr *b; ~Cl() { for (int i = 0; i < 3; ++i) b[i].buf = 0; } } cl{B};
		// inner buffers for the array element type: the harness holds one reference to each
		CArr inner[4] = {{0}, {0}, {0}, {0}};
		if (bt == 1) for (int k = 0; k < 4; ++k) { Sut s; if (!mpt_array_append(AR(inner[k]), 4 + k, 0)) fail("setup", "inner buffer"); }
		struct Ci { CArr *b; ~Ci() { for (int i = 0; i < 4; ++i) b[i].buf = 0; } } ci{inner};
		log.ev("arrays kind=builtin elements=%s (element size %zu)", btname[bt], es);
		st.hit(bt == 1 ? "kind:builtin_array_elements" : bt == 2 ? "kind:builtin_config_item_elements" : bt == 3 ? "kind:builtin_command_elements" : "kind:builtin_identifier_elements");
		uint32_t next = 1;
		// names: odd numbers get short names of every length from 2 to 19 characters (around the inline capacity of an identifier), even ones a name that needs an allocation
		auto name_of = [&](uint32_t v) -> std::string { if (!v) return ""; char b[64]; if (v & 1) { snprintf(b, sizeof b, "n%u", v); std::string n = b; size_t want = 2 + (v / 2) % 18; while (n.size() < want) n.push_back('x'); return n; } snprintf(b, sizeof b, "a-long-name-that-needs-its-own-allocation-%u", v); return b; };
		// a value: identifiers 1.. (odd = inline name, even = allocated name); arrays 1..4 = inner buffer, 0 = empty element in both
		// config items: value = name (as for identifiers) + a counted value object chosen by the number; commands: 0 = inactive, otherwise an active command with that token
		auto fresh_val = [&]() -> uint32_t { return bt == 1 ? 1 + (next++ % 4) : next++; };
		auto parse_name = [&](const identifier *id, const char *after, int h, size_t i) -> uint32_t {
			const char *d = (const char *) mpt_identifier_data(id); size_t n = id->_len;
			if (!n) return 0;
			std::string got(d, n); while (!got.empty() && !got.back()) got.pop_back();      // the stored length includes the terminator
			if (got.empty()) return 0;
			unsigned v = 0; if (sscanf(got.c_str(), "n%u", &v) == 1 && name_of(v) == got) return v; if (sscanf(got.c_str(), "a-long-name-that-needs-its-own-allocation-%u", &v) == 1 && name_of(v) == got) return v;
			fail("wrong-content", "after %s: element %zu of handle %d carries the name '%s' nobody gave it", after, i, h, got.substr(0, 60).c_str());
			return 0;
		};
		auto make = [&](uint8_t *e, uint32_t v) {      // harness-built source element
			if (bt == 1) { array *a = (array *) e; *reinterpret_cast<buffer **>(a) = 0; if (v) { Sut s; mpt_array_clone(a, AR(inner[v - 1])); } }
			else if (bt == 2) { CItem *it = (CItem *) e; { Sut s; tr->init(e, 0); } if (v) { std::string n = name_of(v); Sut s; if (!mpt_identifier_set(&it->id, n.c_str(), (int) n.size())) fail("setup", "source item name"); CObj *o = item_obj(v); if (o) { o->addref(); it->value = o; } else if (item_unshareable(v)) { UObj *u = new UObj(v); uobjs.push_back(u); it->value = u; } } }
			else if (bt == 3) { command *c = (command *) e; memset((void *) c, 0, sizeof(*c)); if (v) { c->id = v; c->cmd = cmd_token_fn; c->arg = (void *) (uintptr_t) v; g_cmd_live.insert(v); } }
			else { identifier *id = (identifier *) e; mpt_identifier_init(id, es); if (v) { std::string n = name_of(v); Sut s; if (!mpt_identifier_set(id, n.c_str(), (int) n.size())) fail("setup", "source identifier"); } }
		};
		auto assign = [&](uint8_t *e, uint32_t v) {    // overwrite a live element in place, the way a user of the private buffer does
			if (bt == 1) { Sut s; mpt_array_clone((array *) e, v ? AR(inner[v - 1]) : 0); }
			else if (bt == 2) { CItem *it = (CItem *) e; std::string n = name_of(v); Sut s; mpt_identifier_set(&it->id, v ? n.c_str() : 0, (int) n.size());
				metatype *o = item_obj(v); if (o) o->addref(); else if (item_unshareable(v)) { UObj *u = new UObj(v); uobjs.push_back(u); o = u; } if (it->value) it->value->unref(); it->value = o;
				// every fifth item also gets (or loses) a sub-item that holds a value of its own: finalising the item must finalise it too
				if (v % 5 == 0) { if (it->elements) mpt_array_clone((array *) &it->elements, 0); else { uint8_t child[64]; tr->init(child, 0); ((CItem *) child)->value = cobj[v % 3]; cobj[v % 3]->addref(); mpt_array_set((array *) &it->elements, tr, es, child, 0); tr->fini(child); } } }
			else if (bt == 3) { command *c = (command *) e; { Sut s; tr->fini(e); } memset((void *) c, 0, sizeof(*c)); if (v) { c->id = v; c->cmd = cmd_token_fn; c->arg = (void *) (uintptr_t) v; g_cmd_live.insert(v); } }
			else { std::string n = name_of(v); Sut s; mpt_identifier_set((identifier *) e, v ? n.c_str() : 0, (int) n.size()); }
		};
		auto read = [&](const uint8_t *e, const char *after, int h, size_t i) -> uint32_t {
			if (bt == 1) { buffer *b = *reinterpret_cast<buffer * const *>(e); if (!b) return 0; for (int k = 0; k < 4; ++k) if (inner[k].buf == b) return (uint32_t) k + 1;
				fail("wrong-content", "after %s: element %zu of handle %d refers to a buffer nobody put there", after, i, h); }
			if (bt == 2) { const CItem *it = (const CItem *) e; uint32_t v = parse_name(&it->id, after, h, i);
				if (v && item_unshareable(v)) { bool mine = false; for (UObj *u : uobjs) if (u == it->value && u->nr == v) mine = true; if (it->value && !mine && !fault_seen) fail("wrong-content", "after %s: item %zu of handle %d is named for the unshareable value %u but holds something else", after, i, h, v); }
				else if (v && it->value != item_obj(v)) { if (!fault_seen) fail("wrong-content", "after %s: item %zu of handle %d is named for value %u but holds another value object", after, i, h, v); }
				if (!v && it->value && !fault_seen) fail("wrong-content", "after %s: unnamed item %zu of handle %d holds a value object", after, i, h);
				return v; }
			if (bt == 3) { const command *c = (const command *) e; if (!c->cmd) return 0; if (c->cmd != cmd_token_fn) fail("wrong-content", "after %s: command %zu of handle %d has a function nobody set", after, i, h);
				uint32_t t = (uint32_t) (uintptr_t) c->arg; if (c->id != t) fail("wrong-content", "after %s: command %zu of handle %d has id %lu and argument %u", after, i, h, (unsigned long) c->id, t); return t; }
			return parse_name((const identifier *) e, after, h, i);
		};
		// ownership: what the elements of all (distinct) buffers hold is exactly what the counted objects and the set of active commands say
		std::map<UObj *, int> uheld;
		std::function<void(const buffer *, long *)> count_items = [&](const buffer *b, long *cnt) {
			size_t n = b ? b->_used / es : 0;
			for (size_t i = 0; i < n; ++i) { const CItem *it = (const CItem *) ((const uint8_t *) (b + 1) + i * es);
				for (int k = 0; k < 3; ++k) if (it->value == cobj[k]) ++cnt[k];
				if (it->value) for (UObj *u : uobjs) if (u == it->value) ++uheld[u];
				count_items(it->elements, cnt); }
		};
		auto audit = [&](const char *after) {
			check_pending();
			std::set<const buffer *> seen;
			if (bt == 2) {
				long cnt[3] = {0, 0, 0}; uheld.clear();
				for (int h = 0; h < 3; ++h) if (B[h].buf && seen.insert(B[h].buf).second) count_items(B[h].buf, cnt);
				for (auto &e : uheld) { if (e.second > 1) fail("double-destroy", "after %s: the unshareable value of item %u is held by %d items (each will release it)", after, e.first->nr, e.second); if (!g_uobj_live.count(e.first)) fail("double-destroy", "after %s: the unshareable value of item %u is still held by an item but was released already", after, e.first->nr); }
				for (UObj *u : g_uobj_live) if (!uheld.count(u)) fail("element-leak", "after %s: the unshareable value of item %u is held by no item any more but was never released", after, u->nr);
				for (int k = 0; k < 3; ++k) if (cobj[k]->refs != 1 + cnt[k]) fail(cobj[k]->refs > 1 + cnt[k] ? "element-leak" : "double-destroy", "after %s: value object %d counts %ld references, the items of all buffers hold %ld (+1 for the harness)", after, k, cobj[k]->refs, cnt[k]);
			}
			if (bt == 3) {
				std::multiset<uint32_t> held;
				for (int h = 0; h < 3; ++h) if (B[h].buf && seen.insert(B[h].buf).second) { size_t n = B[h].buf->_used / es; for (size_t i = 0; i < n; ++i) { const command *c = (const command *) ((const uint8_t *) (B[h].buf + 1) + i * es); if (c->cmd) held.insert((uint32_t) (uintptr_t) c->arg); } }
				for (uint32_t t : held) { if (held.count(t) > 1) fail("double-destroy", "after %s: active command %u is held by %zu elements (it would be finalised once per element)", after, t, held.count(t)); if (!g_cmd_live.count(t)) fail("double-destroy", "after %s: command %u is still an element but was finalised already", after, t); }
				for (uint32_t t : g_cmd_live) if (!held.count(t)) fail("element-leak", "after %s: command %u is in no buffer any more but was never finalised", after, t);
			}
		};
		auto verifyB = [&](const char *after, int operated) {
			for (int h = 0; h < 3; ++h) {
				buffer *b = B[h].buf; size_t n = b ? b->_used / es : 0;
				if (b && (b->_used % es || b->_used > b->_size)) fail("state", "after %s: handle %d used %zu capacity %zu element size %zu", after, h, (size_t) b->_used, (size_t) b->_size, es);
				std::vector<uint32_t> got; for (size_t i = 0; i < n; ++i) got.push_back(read((const uint8_t *) (b + 1) + i * es, after, h, i));
				if (got != MB[h]) { size_t k = 0; while (k < got.size() && k < MB[h].size() && got[k] == MB[h][k]) ++k;
					fail(h == operated ? "wrong-content" : "other-handle-changed", "after %s on handle %d: handle %d reads %zu elements, a value-semantics vector holds %zu (first difference at %zu: %u, expected %u)", after, operated, h, got.size(), MB[h].size(), k, k < got.size() ? got[k] : 0xffffffffu, k < MB[h].size() ? MB[h][k] : 0xffffffffu); }
			}
		};
		for (const Op &op : p.ops) {
			int h = (int) (op.a & 0xff) % 3, h2 = (int) ((op.a >> 8) & 0xff) % 3;
			size_t usedn = B[h].buf ? B[h].buf->_used / es : 0;
			size_t pos = std::min<size_t>((size_t) (op.b & 0xff) % 12, usedn + 2), n = (size_t) ((op.b >> 8) & 0xff) % 5;
			uint64_t failn = op.fault == FL_ALLOC ? (uint64_t) std::max<int64_t>(op.fa, 1) : 0, fired = 0; int outcome = 0;
			st.hit(std::string("op:") + OPS[op.kind]);
			// an active command cannot be copied (its constructor refuses): whatever needs a private copy of a shared buffer that holds one is refused, legitimately
			const bool was_shared_b = B[h].buf && (B[h].buf->get_flags() & BufferShared);
			auto any_active = [&](const std::vector<uint32_t> &v) { for (uint32_t x : v) if (x) return true; return false; };
			// (a private copy of such a buffer holds default = inactive commands in their place: the values of that handle are re-read, ownership is still audited)
			bool loose = bt == 3 && was_shared_b && any_active(MB[h]);
			if (loose) st.hit("probe:shared_active_commands_touched");
			auto reread = [&](const char *why) { if (fired) fault_seen = true; buffer *b = B[h].buf; size_t k = b ? b->_used / es : 0; MB[h].clear(); for (size_t i = 0; i < k; ++i) MB[h].push_back(read((const uint8_t *) (b + 1) + i * es, why, h, i)); };
			// a private copy that was reported as made holds every element of the original, also when an allocation failed on the way
			auto intact = [&](const char *what) {
				buffer *b = B[h].buf; size_t k = b ? b->_used / es : 0;
				for (size_t i = 0; i < MB[h].size() && i < k; ++i) { uint32_t got = read((const uint8_t *) (b + 1) + i * es, what, h, i);
					if (got != MB[h][i]) fail("wrong-content", "%s succeeded although an allocation failed, and element %zu of the private copy reads %u instead of %u", what, i, got, MB[h][i]); }
			};
			switch (op.kind) {
			case OP_B_CLONE: { int rc; { Sut s(failn); rc = mpt_array_clone(AR(B[h]), AR(B[h2])); fired = g.fired; } log.ev("B_CLONE %d <- %d -> %d", h, h2, rc); if (rc >= 0) { MB[h] = MB[h2]; outcome = 1; } break; }
			case OP_B_RELEASE: { { Sut s; mpt_array_clone(AR(B[h]), 0); } MB[h].clear(); log.ev("B_RELEASE %d", h); outcome = 1; break; }
			case OP_B_SET: {
				// n elements at pos, copy-constructed from harness elements or default-constructed
				bool dflt = ((op.b >> 16) & 3) == 0; std::vector<uint32_t> vals(n); for (auto &v : vals) v = dflt ? 0 : fresh_val();
				Block src(n * es + 1, 0); for (size_t i = 0; i < n; ++i) make(src.p + i * es, vals[i]);
				void *r; { Sut s(failn); r = mpt_array_set(AR(B[h]), tr, n * es, dflt ? 0 : src.p, (long) pos); fired = g.fired; }
				for (size_t i = 0; i < n; ++i) { Sut s; tr->fini(src.p + i * es); }
				log.ev("B_SET %d pos=%zu n=%zu%s%s -> %s", h, pos, n, dflt ? " default" : "", fired ? " allocfail" : "", r ? "ok" : "null");
				if (bt == 3 && any_active(vals)) { loose = true; st.hit("probe:active_command_copied_as_default"); }      // "if element copy is unsuccessful, default element value is used"
				if (loose) { }
				else if (r && !fired) { if (pos + n > MB[h].size()) MB[h].resize(pos + n, 0); for (size_t i = 0; i < n; ++i) MB[h][pos + i] = vals[i]; outcome = 1; }
				else if (!fired) fail("refused-valid", "set of %zu %s elements at %zu refused without allocation fault", n, btname[bt], pos);
				else {
					// a failed set may have grown the handle with default elements or applied a prefix; re-read what is there
					reread("failed set");
				}
				break;
			}
			case OP_B_INSERT: {
				if (!B[h].buf) break;
				void *r; { Sut s(failn); r = mpt_array_insert(AR(B[h]), pos * es, n * es); fired = g.fired; }
				log.ev("B_INSERT %d pos=%zu n=%zu%s -> %s", h, pos, n, fired ? " allocfail" : "", r ? "ok" : "null");
				if (r) {
					if (pos > MB[h].size()) MB[h].resize(pos, 0);
					MB[h].insert(MB[h].begin() + (ptrdiff_t) pos, n, 0);
					// the gap is raw space for the caller to construct elements in (what precedes it was default-constructed by the library)
					for (size_t i = 0; i < n; ++i) { uint32_t v = fresh_val();
						if (bt == 3) { make((uint8_t *) r + i * es, v); MB[h][pos + i] = v; continue; }      // a command is activated in place (as mpt_command_reserve's callers do)
						Block tmp(es, 0); make(tmp.p, v); int ir; { Sut s; ir = tr->init((uint8_t *) r + i * es, tmp.p); tr->fini(tmp.p); }
						if (ir < 0) fail("refused-valid", "copy construction of a %s element reports failure (%d)", btname[bt], ir); MB[h][pos + i] = v; }
					outcome = 1;
				} else if (!fired && !loose) fail("refused-valid", "insert of %zu elements at %zu refused without allocation fault", n, pos);
				break;
			}
			case OP_B_WRITE: {
				// make [pos, pos+n) writable (private copy of a shared buffer = copy construction of every element), then overwrite in place
				if (!B[h].buf) break;
				void *r; { Sut s(failn); r = mpt_array_slice(AR(B[h]), pos * es, n * es); fired = g.fired; }
				log.ev("B_WRITE %d pos=%zu n=%zu%s -> %s", h, pos, n, fired ? " allocfail" : "", r ? "ok" : "null");
				if (r) {
					if (B[h].buf->get_flags() & BufferShared) fail("still-shared", "slice handed out a writable region of a buffer that is still shared");
					if (fired && was_shared_b && !loose && bt != 2) { st.hit("probe:private_copy_under_allocfail"); intact("making the handle private (slice)"); }
					if (pos + n > MB[h].size()) MB[h].resize(pos + n, 0);
					for (size_t i = 0; i < n; ++i) { uint32_t v = fresh_val(); assign((uint8_t *) r + i * es, v); MB[h][pos + i] = v; }
					outcome = 1;
				} else if (!fired && !loose) fail("refused-valid", "slice of %zu elements at %zu refused without allocation fault", n, pos);
				break;
			}
			case OP_B_CUT: {
				if (!B[h].buf) break;
				buffer *b; { Sut s(failn); b = mpt_array_reserve(AR(B[h]), B[h].buf->_used, tr); fired = g.fired; }
				if (!b) { if (!fired && !loose) fail("refused-valid", "reserve of the current size refused without allocation fault"); break; }
				size_t ub = b->_used / es; bool valid = n ? (pos <= ub && n <= ub - pos) : pos <= ub;
				ssize_t rc; { Sut s; rc = mpt_buffer_cut(b, pos * es, n * es); }
				log.ev("B_CUT %d pos=%zu n=%zu of %zu -> %zd", h, pos, n, ub, rc);
				if (!valid) { if (rc >= 0) fail("accepted-invalid", "cut(%zu, %zu) accepted on %zu elements", pos, n, ub); }
				else if (rc < 0) fail("refused-valid", "cut(%zu, %zu) refused on %zu elements", pos, n, ub);
				else { if (n) MB[h].erase(MB[h].begin() + (ptrdiff_t) pos, MB[h].begin() + (ptrdiff_t) (pos + n)); else MB[h].resize(pos); outcome = 1; }
				break;
			}
			}
			if (fired) {
				// an element whose copy could not be made is replaced by a default one or the operation stops early: values are not judged, ownership still is
				st.hit("fault:allocfail"); fault_seen = true;
				reread("faulted operation");
			}
			else if (loose) reread("an operation that had to copy active commands");
			st.state(300 + op.kind, bt * 16 + (fired ? 8 : 0) + (int) std::min<size_t>(usedn, 3) * 2 + (B[h].buf && (B[h].buf->get_flags() & BufferShared) ? 1 : 0), outcome);
			verifyB(OPS[op.kind], h);
			audit(OPS[op.kind]);
		}
		for (int h = 0; h < 3; ++h) { Sut s; mpt_array_clone(AR(B[h]), 0); }
		audit("the last handle was released");
		if (bt == 1) {
			// every element reference is gone: the harness holds the only reference to each inner buffer
			for (int k = 0; k < 4; ++k) if (inner[k].buf->get_flags() & BufferShared) fail("never-destroyed", "inner buffer %d is still shared after the last array of arrays went away (an element was not finalised)", k);
			for (int k = 0; k < 4; ++k) { Sut s; mpt_array_clone(AR(inner[k]), 0); }
		}
		check_pending();
		if (ledger_live()) fail("element-leak", "%zu block(s) still allocated after the last handle was released (elements own them): %s", ledger_live(), ledger_describe().c_str());
	}

	void exec_cxx_bytes(const Plan &p, Log &log, Stats &st) {
		T = Track();
		array *A[3]; std::vector<uint8_t> M3[3];
		for (auto &a : A) { Sut s; a = new array(); }
		typed_array<uint32_t> *PA[3]; std::vector<uint32_t> MP3[3];     // plain elements: no constructor, new ones must read as zero
		for (auto &a : PA) { Sut s; a = new typed_array<uint32_t>(); }
		log.ev("arrays kind=cxx-bytes (mpt::array, typed_array<uint32_t>)");
		st.hit("kind:cxx_bytes");
		auto verify3 = [&](const char *after, int operated) {
			check_pending();
			for (int h = 0; h < 3; ++h) {
				const array::content *d = A[h]->data();
				size_t len = d ? d->length() : 0; const uint8_t *base = d ? (const uint8_t *) d->data() : 0;
				if (d && d->_used > d->_size) fail("state", "after %s: C++ array %d used %zu beyond capacity %zu", after, h, (size_t) d->_used, (size_t) d->_size);
				bool same = len == M3[h].size() && (!len || !memcmp(base, M3[h].data(), len));
				if (!same) {
					size_t k = 0; while (k < len && k < M3[h].size() && base[k] == M3[h][k]) ++k;
					fail(h == operated ? "wrong-content" : "other-handle-changed", "after %s on C++ array %d: array %d reads %zu bytes, a value-semantics vector holds %zu (first difference at %zu)", after, operated, h, len, M3[h].size(), k);
				}
			}
			for (int h = 0; h < 3; ++h) {
				long n = PA[h]->length(); const uint32_t *b = PA[h]->begin();
				bool same = (size_t) n == MP3[h].size() && (!n || !memcmp(b, MP3[h].data(), (size_t) n * 4));
				if (!same) {
					size_t k = 0; while (k < (size_t) n && k < MP3[h].size() && b[k] == MP3[h][k]) ++k;
					fail(h + 10 == operated ? "wrong-content" : "other-handle-changed", "after %s on typed_array<uint32_t> %d: typed_array %d reads %ld elements, a value-semantics vector holds %zu (first difference at %zu)", after, operated - 10, h, n, MP3[h].size(), k);
				}
			}
		};
		for (const Op &op : p.ops) {
			int h = (int) (op.a & 0xff) % 3, h2 = (int) ((op.a >> 8) & 0xff) % 3;
			const array::content *d0 = A[h]->data(); size_t usedb = d0 ? d0->length() : 0, capb = d0 ? d0->_size : 0;
			size_t pos = sel(op.b & 0xff, (int) ((op.b >> 8) & 0xf), usedb, capb, (uint64_t) op.c), len = sel((op.b >> 16) & 0xff, (int) ((op.b >> 24) & 0xf), usedb, capb, (uint64_t) op.c / 7);
			if (len > 400) len = 400;
			if (pos > 600) pos = 600;
			uint64_t failn = op.fault == FL_ALLOC ? (uint64_t) std::max<int64_t>(op.fa, 1) : 0, fired = 0;
			bool was_shared = A[h]->shared(); bool nul = (op.c % 5) == 0; int outcome = 0, operated = h;
			std::vector<uint32_t> v32 = fresh(len); std::vector<uint8_t> vals(v32.begin(), v32.end());
			Block src(len, 0); if (len) memcpy(src.p, vals.data(), len);
			st.hit(std::string("op:") + OPS[op.kind]);
			switch (op.kind) {
			case OP_X_ASSIGN: if ((op.c & 14) == 6) {
				// episode on the C++ slice class: a view on array h's buffer is moved and resized, written through, copied, and assigned
				// to an array (possibly the one it views); the viewed array keeps its content, the view reads the model's sub-range
				slice *sl; { Sut s; sl = new slice(*A[h]); }
				size_t off = 0, n = M3[h].size(); const size_t total = n; std::vector<uint8_t> view = M3[h];
				auto reads = [&](const slice *x, const char *what) {
					span<const uint8_t> d = x->data();
					if ((size_t) d.size() != view.size() || (view.size() && memcmp(d.begin(), view.data(), view.size()))) { size_t k = 0; while (k < (size_t) d.size() && k < view.size() && d.begin()[k] == view[k]) ++k;
						fail("wrong-content", "slice %s reads %zu bytes, the model view [%zu,+%zu) of %zu holds %zu (first difference at %zu)", what, (size_t) d.size(), off, n, total, view.size(), k); }
				};
				reads(sl, "of the whole array");
				for (int k = 0; k < 4; ++k) {
					uint64_t z = (uint64_t) op.c * 0x9e3779b97f4a7c15ull + (uint64_t) k * 0xbf58476d1ce4e5b9ull; z ^= z >> 29;
					ssize_t amt; unsigned m = (unsigned) (z & 7); size_t q = (size_t) ((z >> 8) % 5);
					bool istrim = (z >> 3) & 1;
					if (!istrim) amt = m < 3 ? (ssize_t) std::min(q, n) : m == 3 ? (ssize_t) n : m == 4 ? (ssize_t) n + 1 : m == 5 ? -(ssize_t) std::min(q, off) : m == 6 ? -(ssize_t) off : -(ssize_t) off - 1;
					else { size_t room = total - off - n; amt = m < 3 ? (ssize_t) std::min(q, n) : m == 3 ? (ssize_t) n : m == 4 ? (ssize_t) n + 1 : m == 5 ? -(ssize_t) std::min(q, room) : m == 6 ? -(ssize_t) room : -(ssize_t) room - 1; }
					bool ok; { Sut s; ok = istrim ? sl->trim(amt) : sl->shift(amt); }
					bool valid = istrim ? (amt >= 0 ? (size_t) amt <= n : (size_t) -amt <= total - off - n) : (amt >= 0 ? (size_t) amt <= n : (size_t) -amt <= off);
					log.ev("X_SLICE %d %s(%zd) on [%zu,+%zu) of %zu -> %d", h, istrim ? "trim" : "shift", amt, off, n, total, (int) ok);
					if (ok && !valid) fail("accepted-invalid", "slice %s(%zd) accepted on view [%zu,+%zu) of %zu bytes", istrim ? "trim" : "shift", amt, off, n, total);
					if (!ok && valid) fail("refused-valid", "slice %s(%zd) refused on view [%zu,+%zu) of %zu bytes", istrim ? "trim" : "shift", amt, off, n, total);
					if (ok) { if (istrim) n -= amt; else { off += amt; n -= amt; } view.assign(M3[h].begin() + off, M3[h].begin() + off + n); }
					reads(sl, istrim ? "after trim" : "after shift");
				}
				st.hit("probe:cxx_slice_moved");
				slice *c2; { Sut s; c2 = new slice(*sl); } reads(c2, "copy-constructed from a slice"); { Sut s; delete c2; }
				unsigned fin = (unsigned) (op.c >> 4) & 3;
				if (fin == 0) {
					// written through: the view grows by the blocks taken, the viewed array keeps its content
					size_t nblk = 1 + (size_t) (op.c >> 6) % 4, bs = 1 + (size_t) (op.c >> 8) % 30; std::vector<uint32_t> w32 = fresh(nblk * bs); Block wb(nblk * bs, 0); for (size_t i = 0; i < w32.size(); ++i) wb.p[i] = (uint8_t) w32[i];
					ssize_t w; { Sut s(failn); w = sl->write(nblk, wb.p, bs); fired = g.fired; }
					log.ev("X_SLICE %d write %zu x %zu%s -> %zd", h, nblk, bs, fired ? " allocfail" : "", w);
					if (w > (ssize_t) nblk) fail("wrong-content", "slice write reports %zd of %zu blocks", w, nblk);
					if (w < 0) { if (!fired) fail("refused-valid", "slice write of %zu blocks of %zu bytes refused without allocation fault (%zd)", nblk, bs, w); }
					else { for (size_t i = 0; i < (size_t) w * bs; ++i) view.push_back(wb.p[i]); n = view.size(); reads(sl, "after a write through it"); st.hit("probe:cxx_slice_written"); }
				} else if (fin == 1) {
					// assigned to an array: that array reads the view (also when it is the array the slice views)
					{ Sut s(failn); *A[h2] = *sl; fired = g.fired; }
					log.ev("X_SLICE array %d = slice[%zu,+%zu) of array %d%s", h2, off, n, h, fired ? " allocfail" : "");
					const array::content *d2 = A[h2]->data(); size_t l2 = d2 ? d2->length() : 0;
					if (!fired || (l2 == view.size() && (!l2 || !memcmp(d2->data(), view.data(), l2)))) M3[h2] = view;
					else if (!(l2 == M3[h2].size() && (!l2 || !memcmp(d2->data(), M3[h2].data(), l2)))) fail("wrong-content", "array assigned from a slice under an allocation fault reads neither the view nor its old content (%zu bytes)", l2);
					operated = h2; if (h2 != h) reads(sl, "after it was assigned to an array"); st.hit("probe:cxx_slice_assigned");
				} else if (fin == 2) {
					// content replaced from a convertable: the view covers the new content
					struct SrcConv : public convertable { struct iovec vec; int convert(type_t ty, void *ptr) override { Harness hs; if (ty == (type_t) TypeVector) { if (ptr) *(struct iovec *) ptr = vec; return TypeVector; } return BadType; } } sc;
					sc.vec.iov_base = src.p; sc.vec.iov_len = len;
					int rc; { Sut s(failn); rc = sl->set(sc); fired = g.fired; }
					log.ev("X_SLICE %d set(vector of %zu)%s -> %d", h, len, fired ? " allocfail" : "", rc);
					if (rc < 0) { if (!fired) fail("refused-valid", "slice set from a vector of %zu bytes refused (%d) without allocation fault", len, rc); else reads(sl, "after a refused set"); }
					else { view = vals; off = 0; n = view.size(); reads(sl, "after set from a vector"); }
				}
				{ Sut s; delete sl; }
				outcome = 1; break;
			} else { if (op.c & 1) { { Sut s; *PA[h] = *PA[h2]; } MP3[h] = MP3[h2]; operated = h + 10; log.ev("X_ASSIGN plain %d = %d", h, h2); } else { { Sut s; *A[h] = *A[h2]; } M3[h] = M3[h2]; log.ev("X_ASSIGN %d = %d", h, h2); } outcome = 1; break; }
			case OP_X_RELEASE: if ((op.c & 14) == 6) {
				// episode on an encode_array without encoder (plain appending with a consumer): what was pushed and not yet taken reads back in
				// order, whatever was consumed in front of it, whatever room was asked for, and whoever holds a copy
				struct EA : public encode_array { using encode_array::_state; using encode_array::_d; };
				EA *e; { Sut s; e = new EA(); }
				std::vector<uint8_t> live; size_t done = 0;
				auto reads = [&](EA *x, const std::vector<uint8_t> &lv, size_t dn, const char *what) {
					span<const uint8_t> d; { Sut s; d = x->data(); }
					if ((size_t) d.size() != dn || (dn && memcmp(d.begin(), lv.data(), dn))) { size_t k = 0; while (k < (size_t) d.size() && k < dn && d.begin()[k] == lv[k]) ++k;
						fail("wrong-content", "encode_array %s: %zu finished bytes readable, %zu were pushed and not taken (first difference at %zu)", what, (size_t) d.size(), dn, k); }
					const array::content *c = x->_d.data(); size_t n = c ? c->length() : 0;
					if (x->_state.done + x->_state.scratch != lv.size() || n < lv.size()) fail("wrong-content", "encode_array %s: holds %zu bytes (%zu in its buffer), %zu were pushed and not taken", what, (size_t) (x->_state.done + x->_state.scratch), n, lv.size());
					if (!lv.empty() && memcmp((const uint8_t *) c->data() + (n - lv.size()), lv.data(), lv.size())) { const uint8_t *b = (const uint8_t *) c->data() + (n - lv.size()); size_t k = 0; while (k < lv.size() && b[k] == lv[k]) ++k;
						fail("wrong-content", "encode_array %s: byte %zu of the %zu pushed and not taken reads differently", what, k, lv.size()); }
				};
				for (int k = 0; k < 10; ++k) {
					uint64_t z = ((uint64_t) op.c + 3) * 0x9e3779b97f4a7c15ull + (uint64_t) k * 0xbf58476d1ce4e5b9ull; z ^= z >> 30;
					unsigned act = (unsigned) (z % 8); size_t n = 1 + (size_t) ((z >> 8) % 40);
					if (act <= 2 && !live.empty() && ((z >> 40) & 3) == 0) {
						// the pushed bytes are part of what the array holds (the pointer lies inside its buffer)
						size_t so = (size_t) ((z >> 24) % live.size()), sl = 1 + (size_t) ((z >> 32) % (live.size() - so));
						std::vector<uint8_t> own(live.begin() + so, live.begin() + so + sl);
						const array::content *c0 = e->_d.data(); const uint8_t *ptr = (const uint8_t *) c0->data() + (c0->length() - live.size()) + so;
						ssize_t r; { Sut s; r = e->push(sl, ptr); }
						log.ev("X_ENCARR push %zu of its own bytes -> %zd", sl, r); st.hit("probe:encode_array_push_own_content");
						if (r < 0) fail("refused-valid", "encode_array push of %zu of its own bytes refused (%zd)", sl, r);
						live.insert(live.end(), own.begin(), own.begin() + r);
					} else if (act <= 2) {
						std::vector<uint32_t> w32 = fresh(n); Block wb(n, 0); for (size_t i = 0; i < n; ++i) wb.p[i] = (uint8_t) w32[i];
						ssize_t r; { Sut s(k == 5 ? failn : 0); r = e->push(n, wb.p); if (k == 5) fired = g.fired; }
						log.ev("X_ENCARR push %zu -> %zd", n, r);
						if (r < 0) { if (!fired) fail("refused-valid", "encode_array push of %zu bytes refused (%zd) without allocation fault", n, r); }
						else { if ((size_t) r > n) fail("wrong-content", "encode_array push reports %zd of %zu bytes", r, n); live.insert(live.end(), wb.p, wb.p + r); }
					} else if (act == 3) { ssize_t r; { Sut s; r = e->push(0, 0); } log.ev("X_ENCARR finish -> %zd", r); if (r >= 0) done = live.size(); }
					else if (act == 4) { size_t t = (z >> 16) & 1 ? done : (size_t) ((z >> 20) % (done + 2)); if (!t) t = 1; bool ok; { Sut s; ok = e->shift(t); }
						log.ev("X_ENCARR take %zu of %zu finished -> %d", t, done, (int) ok);
						if (ok && t > done) fail("accepted-invalid", "encode_array gave away %zu bytes, %zu were finished", t, done);
						if (!ok && t <= done) fail("refused-valid", "encode_array refused to give away %zu of %zu finished bytes", t, done);
						if (ok) { live.erase(live.begin(), live.begin() + t); done -= t; st.hit("probe:encode_array_consumed"); } }
					else if (act == 5) { bool ok; { Sut s; ok = e->shift(0); } log.ev("X_ENCARR move to front -> %d", (int) ok); }
					else if (act == 6) { bool ok; { Sut s(k == 5 ? failn : 0); ok = e->prepare(n * 7); if (k == 5) fired = g.fired; } log.ev("X_ENCARR room for %zu -> %d", n * 7, (int) ok);
						if (!ok && !fired) fail("refused-valid", "encode_array refused to make room for %zu bytes without allocation fault", n * 7); st.hit("probe:encode_array_prepare"); }
					else {
						// a copy shares the buffer: pushing to it leaves the first one as it is
						EA *c; { Sut s; c = new EA(*e); }
						std::vector<uint32_t> w32 = fresh(n); Block wb(n, 0); for (size_t i = 0; i < n; ++i) wb.p[i] = (uint8_t) w32[i];
						ssize_t r; { Sut s; r = c->push(n, wb.p); }
						log.ev("X_ENCARR push %zu to a copy -> %zd", n, r);
						if (r >= 0) { std::vector<uint8_t> lc = live; lc.insert(lc.end(), wb.p, wb.p + r); reads(c, lc, done, "copy after a push"); }
						{ Sut s; delete c; } st.hit("probe:encode_array_copy_pushed");
					}
					reads(e, live, done, act <= 2 ? "after push" : act == 3 ? "after finish" : act == 4 ? "after take" : act == 5 ? "after move to front" : act == 6 ? "after making room" : "after its copy was pushed to");
				}
				{ Sut s; delete e; }
				{
					// the I/O face of the same thing (io::buffer): blocks written are the blocks read back, in order; a write that could not store a
					// block (allocation failure) does not count it
					io::buffer *b; { Sut s; b = new io::buffer(); }
					std::deque<uint8_t> q;
					for (int k = 0; k < 8; ++k) {
						uint64_t z = ((uint64_t) op.c + 17) * 0x9e3779b97f4a7c15ull + (uint64_t) k * 0xbf58476d1ce4e5b9ull; z ^= z >> 28;
						size_t es = 1 + (size_t) (z % 9), nb = 1 + (size_t) ((z >> 8) % 5);
						if ((z >> 16) & 1) {
							std::vector<uint32_t> w32 = fresh(es * nb); Block wb(es * nb, 0); for (size_t i = 0; i < es * nb; ++i) wb.p[i] = (uint8_t) w32[i];
							ssize_t w; uint64_t f2; { Sut s(k == 3 ? failn : 0); w = b->write(nb, wb.p, es); f2 = g.fired; }
							log.ev("X_IOBUF write %zu x %zu%s -> %zd", nb, es, f2 ? " allocfail" : "", w);
							if (w < 0 || (size_t) w > nb) { if (!f2) fail("refused-valid", "io::buffer write of %zu blocks of %zu bytes reports %zd without allocation fault", nb, es, w); w = 0; }
							if ((size_t) w < nb && !f2) fail("refused-valid", "io::buffer write of %zu blocks of %zu bytes took %zd without allocation fault", nb, es, w);
							for (size_t i = 0; i < (size_t) w * es; ++i) q.push_back(wb.p[i]);
							if (f2) fired = f2;
						} else {
							Block rb(es * nb, 0); memset(rb.p, 0xCC, es * nb);
							ssize_t r; { Sut s; r = b->read(nb, rb.p, es); }
							size_t can = std::min(nb, q.size() / es);
							log.ev("X_IOBUF read %zu x %zu -> %zd (stored %zu)", nb, es, r, q.size());
							if (r < 0 || (size_t) r != can) fail("wrong-content", "io::buffer read of %zu blocks of %zu bytes returns %zd with %zu bytes written and not yet read", nb, es, r, q.size());
							for (size_t i = 0; i < can * es; ++i) { if (rb.p[i] != q.front()) fail("wrong-content", "io::buffer read byte %zu is %02x, written was %02x", i, rb.p[i], q.front()); q.pop_front(); }
						}
					}
					{ Sut s; delete b; } st.hit("probe:io_buffer_write_read");
				}
				outcome = 1; break;
			} else { if (op.c & 1) { { Sut s; *PA[h] = typed_array<uint32_t>(); } MP3[h].clear(); operated = h + 10; log.ev("X_RELEASE plain %d", h); } else { { Sut s; *A[h] = array(); } M3[h].clear(); log.ev("X_RELEASE %d", h); } outcome = 1; break; }
			case OP_X_APPEND: if (!M3[h].empty() && (op.c % 11) == 3) {
				// the C++ array appended to itself (a += its own content), or a part of its own bytes
				size_t u = M3[h].size(); bool whole = (op.c & 1) != 0; size_t so = whole ? 0 : (size_t) (op.c / 11) % u, sl = whole ? u : 1 + (size_t) (op.c / 7) % (u - so);
				std::vector<uint8_t> own(M3[h].begin() + so, M3[h].begin() + so + sl);
				bool ok;
				if (whole) { Sut s(failn); *A[h] += *A[h]->data(); fired = g.fired; const array::content *d = A[h]->data(); ok = d && d->length() == 2 * u; }
				else { const uint8_t *ptr = (const uint8_t *) A[h]->data()->data() + so; void *r; { Sut s(failn); r = A[h]->append(sl, ptr); fired = g.fired; } ok = r != 0; }
				log.ev("X_APPEND %d its own bytes [%zu,+%zu) of %zu%s -> %d", h, so, sl, u, fired ? " allocfail" : "", (int) ok);
				st.hit("probe:cxx_append_own_content");
				if (ok) { M3[h].insert(M3[h].end(), own.begin(), own.end()); outcome = 1; } else if (!fired) fail("refused-valid", "C++ array append of its own %zu bytes refused without allocation fault", sl);
				break;
			} else {
				void *r; { Sut s(failn); r = A[h]->append(len, nul ? 0 : src.p); fired = g.fired; }
				log.ev("X_APPEND %d len=%zu%s%s -> %s", h, len, nul ? " zeros" : "", fired ? " allocfail" : "", r ? "ok" : "null");
				if (r) { if (nul) vals.assign(len, 0); M3[h].insert(M3[h].end(), vals.begin(), vals.end()); outcome = 1; }
				else if (!fired) fail("refused-valid", "C++ array append of %zu bytes refused without allocation fault", len);
				break;
			}
			case OP_X_INSERT: if (!M3[h].empty() && (op.c % 11) == 3) {
				// the inserted bytes are part of the array's own content
				size_t u = M3[h].size(), so = (size_t) (op.c / 11) % u, sl = 1 + (size_t) (op.c / 7) % (u - so), at = (size_t) (op.c / 13) % (u + 1);
				std::vector<uint8_t> own(M3[h].begin() + so, M3[h].begin() + so + sl);
				const uint8_t *ptr = (const uint8_t *) A[h]->data()->data() + so;
				void *r; { Sut s(failn); r = A[h]->insert(at, sl, ptr); fired = g.fired; }
				log.ev("X_INSERT %d at %zu its own bytes [%zu,+%zu) of %zu%s -> %s", h, at, so, sl, u, fired ? " allocfail" : "", r ? "ok" : "null");
				st.hit("probe:cxx_insert_own_content");
				if (r) { M3[h].insert(M3[h].begin() + at, own.begin(), own.end()); outcome = 1; } else if (!fired) fail("refused-valid", "C++ array insert of its own %zu bytes at %zu refused without allocation fault", sl, at);
				break;
			} else {
				void *r; { Sut s(failn); r = A[h]->insert(pos, len, nul ? 0 : src.p); fired = g.fired; }
				log.ev("X_INSERT %d off=%zu len=%zu%s%s -> %s", h, pos, len, nul ? " zeros" : "", fired ? " allocfail" : "", r ? "ok" : "null");
				if (r) { if (nul) vals.assign(len, 0); if (pos > M3[h].size()) M3[h].resize(pos, 0); M3[h].insert(M3[h].begin() + pos, vals.begin(), vals.end()); outcome = 1; }
				else if (!fired) fail("refused-valid", "C++ array insert(off %zu, len %zu) refused without allocation fault", pos, len);
				break;
			}
			case OP_X_SET: if (!M3[h].empty() && (op.c % 11) == 3) {
				// the array is set to a part of its own content
				size_t u = M3[h].size(), so = (size_t) (op.c / 11) % u, sl = 1 + (size_t) (op.c / 7) % (u - so);
				std::vector<uint8_t> own(M3[h].begin() + so, M3[h].begin() + so + sl);
				const uint8_t *ptr = (const uint8_t *) A[h]->data()->data() + so;
				void *r; { Sut s(failn); r = A[h]->set(sl, ptr); fired = g.fired; }
				log.ev("X_SET %d to its own bytes [%zu,+%zu) of %zu%s -> %s", h, so, sl, u, fired ? " allocfail" : "", r ? "ok" : "null");
				st.hit("probe:cxx_set_own_content");
				if (r) { M3[h] = own; outcome = 1; } else if (!fired) fail("refused-valid", "C++ array set to its own %zu bytes refused without allocation fault", sl);
				break;
			} else {
				void *r; { Sut s(failn); r = A[h]->set(len, nul ? 0 : src.p); fired = g.fired; }
				log.ev("X_SET %d len=%zu%s%s -> %s", h, len, nul ? " zeros" : "", fired ? " allocfail" : "", r ? "ok" : "null");
				if (r) { if (nul) vals.assign(len, 0); M3[h] = vals; outcome = 1; }
				else if (!fired && len) fail("refused-valid", "C++ array set of %zu bytes refused without allocation fault", len);
				else if (!fired && !len) M3[h].clear();
				break;
			}
			case OP_X_PRINTF: {
				// episode on temporary C++ arrays: content from a value (text, byte vector), copy construction, assignment and
				// appending of an iovec through a copy - the original must keep reading what it was given
				std::string text = "t"; for (size_t i = 0; i < (size_t) op.c % 70; ++i) text.push_back((char) ('a' + (op.c + i * 7) % 26));
				Block tb(text.size() + 1, 0); memcpy(tb.p, text.c_str(), text.size() + 1);
				const char *cs = (const char *) tb.p; struct iovec vec; vec.iov_base = src.p; vec.iov_len = len;
				bool astext = (op.c & 1) != 0;
				value v; if (astext) v.set('s', &cs); else v.set(TypeVector, &vec);
				array *t; { Sut s; t = new array(); }
				// the content comes from a value, from a convertable (offering a generic vector, a character vector or a text), or is the buffer of one of the arrays
				struct SrcConv : public convertable { int mode; struct iovec vec; const char *str;
					int convert(type_t ty, void *ptr) override { Harness hs;
						if (mode == 0 && ty == (type_t) TypeVector) { if (ptr) *(struct iovec *) ptr = vec; return TypeVector; }
						if (mode == 1 && ty == (type_t) MPT_type_toVector('c')) { if (ptr) *(struct iovec *) ptr = vec; return (int) ty; }
						if (mode == 2 && ty == 's') { if (ptr) *(const char **) ptr = str; return 's'; }
						return BadType; } } sc;
				unsigned how = (unsigned) (op.c >> 2) & 3;
				sc.mode = astext ? 2 : (int) ((op.c >> 4) & 1); sc.vec = vec; sc.str = cs;
				int rc; std::vector<uint8_t> want; if (astext) { want.assign(text.begin(), text.end()); want.push_back(0); } else want = vals;
				if (how == 1 || how == 2) { Sut s(failn); rc = t->set(sc); fired = g.fired; st.hit("probe:cxx_array_set_convertable"); }
				else if (how == 3) { const array::content *d0 = A[h]->data();
					reference<buffer> rb; if (d0) { Sut s; const_cast<array::content *>(d0)->addref(); rb.set_instance(const_cast<array::content *>(d0)); }
					bool ok; { Sut s(failn); ok = t->set(rb); fired = g.fired; } { Sut s; rb.set_instance(0); }
					rc = ok ? 0 : -1; want = M3[h]; astext = false; st.hit("probe:cxx_array_set_buffer_reference"); }
				else { Sut s(failn); rc = t->set(v); fired = g.fired; }
				log.ev("X_EPISODE set(%s of %zu bytes, %s)%s -> %d", astext ? "text" : "vector", want.size(), how == 3 ? "buffer reference" : how ? "convertable" : "value", fired ? " allocfail" : "", rc);
				auto reads = [&](const array *a, const std::vector<uint8_t> &w, const char *what) {
					const array::content *d = a->data(); size_t n = d ? d->length() : 0; const uint8_t *b = d ? (const uint8_t *) d->data() : 0;
					if (n != w.size() || (n && memcmp(b, w.data(), n))) { size_t k = 0; while (k < n && k < w.size() && b[k] == w[k]) ++k;
						fail("wrong-content", "C++ array %s reads %zu bytes, %zu were given (first difference at %zu)", what, n, w.size(), k); }
				};
				if (rc < 0) { if (!fired) fail("refused-valid", "C++ array set(value: %s of %zu bytes) refused (%d) without allocation fault", astext ? "text" : "vector", want.size(), rc); }
				else {
					reads(t, want, "set from a value");
					array *c; { Sut s; c = new array(*t); }
					reads(c, want, "copy-constructed");
					std::vector<uint32_t> v2 = fresh(1 + len % 9); std::vector<uint8_t> b2(v2.begin(), v2.end()); Block s2(b2.size(), 0); memcpy(s2.p, b2.data(), b2.size());
					struct iovec add; add.iov_base = s2.p; add.iov_len = b2.size();
					if (op.c & 2) { { Sut s; *c += add; } std::vector<uint8_t> w2 = want; if (!astext) { w2.insert(w2.end(), b2.begin(), b2.end()); reads(c, w2, "appended to through a copy"); } }
					else { { Sut s; *c = add; } reads(c, b2, "assigned an iovec through a copy"); }
					reads(t, want, "after its copy was written to");
					{ Sut s; delete c; }
					outcome = 1;
				}
				{ Sut s; delete t; }
				break;
			}
			case OP_X_TINSERT: case OP_X_TSET: case OP_X_RESIZE: case OP_X_RESERVE: case OP_X_DETACH: {
				long usedn = PA[h]->length(); uint32_t val = fresh(1)[0] | 0x01000000u;
				long tpos = (long) sel(op.b & 0xff, (int) ((op.b >> 8) & 0xf), (size_t) usedn, (size_t) usedn + 2, (uint64_t) op.c); if (tpos > 40) tpos = 40;
				operated = h + 10;
				if (op.kind == OP_X_TINSERT) {
					bool ok; { Sut s(failn); ok = PA[h]->insert(tpos, val); fired = g.fired; }
					log.ev("X_TINSERT plain %d pos=%ld of %ld%s -> %d", h, tpos, usedn, fired ? " allocfail" : "", (int) ok);
					if (ok) { if ((size_t) tpos > MP3[h].size()) MP3[h].resize((size_t) tpos, 0); MP3[h].insert(MP3[h].begin() + tpos, val); outcome = 1; }
					else if (!fired) fail("refused-valid", "typed_array<uint32_t> insert at %ld of %ld refused without allocation fault", tpos, usedn);
				} else if (op.kind == OP_X_TSET) {
					bool ok; { Sut s(failn); ok = PA[h]->set(tpos, val); fired = g.fired; }
					log.ev("X_TSET plain %d pos=%ld of %ld%s -> %d", h, tpos, usedn, fired ? " allocfail" : "", (int) ok);
					if (tpos >= usedn) { if (ok) fail("accepted-invalid", "typed_array<uint32_t> set at %ld accepted with %ld elements", tpos, usedn); }
					else if (ok) { MP3[h][(size_t) tpos] = val; outcome = 1; }
					else if (!fired) fail("refused-valid", "typed_array<uint32_t> set at %ld of %ld refused without allocation fault", tpos, usedn);
				} else if (op.kind == OP_X_RESIZE) {
					long n = (long) ((size_t) op.c % 12);
					bool ok; { Sut s(failn); ok = PA[h]->resize(n); fired = g.fired; }
					log.ev("X_RESIZE plain %d to %ld (from %ld)%s -> %d", h, n, usedn, fired ? " allocfail" : "", (int) ok);
					if (ok) { MP3[h].resize((size_t) n, 0); outcome = 1; }
					else if (!fired) fail("refused-valid", "typed_array<uint32_t> resize to %ld refused without allocation fault", n);
				} else if (op.kind == OP_X_RESERVE) {
					long n = (long) ((size_t) op.c % 20);
					bool ok; { Sut s(failn); ok = PA[h]->reserve(n); fired = g.fired; }
					log.ev("X_RESERVE plain %d %ld%s -> %d", h, n, fired ? " allocfail" : "", (int) ok);
					outcome = ok;      // content stays, whatever the request and whoever shares the buffer
				} else {
					bool ok; { Sut s(failn); ok = PA[h]->detach(); fired = g.fired; }
					log.ev("X_DETACH plain %d%s -> %d", h, fired ? " allocfail" : "", (int) ok);
					if (!ok && !fired) fail("refused-valid", "typed_array<uint32_t> detach refused without allocation fault");
					outcome = ok;
				}
				break;
			}
			}
			if (fired) st.hit("fault:allocfail");
			if (was_shared) st.hit("probe:op_on_shared_buffer");
			st.state(250 + op.kind, (was_shared ? 8 : 0) + (fired ? 4 : 0) + (pos > usedb ? 2 : 0) + (pos + len > capb ? 1 : 0), outcome);
			verify3(OPS[op.kind], operated);
		}
		for (auto &a : A) { Sut s; delete a; a = 0; }
		for (auto &a : PA) { Sut s; delete a; a = 0; }
		check_pending();
		if (ledger_live()) fail("leak", "%zu block(s) still allocated after the last C++ array went away: %s", ledger_live(), ledger_describe().c_str());
	}

	// ================================================================ C++ layer: typed containers on tracked elements
	void exec_cxx_tracked(const Plan &p, Log &log, Stats &st) {
		T = Track(); T.esize = sizeof(Tracked);
		typed_array<Tracked> *TA[3]; std::vector<uint32_t> MT[3];
		for (auto &a : TA) { Sut s; a = new typed_array<Tracked>(); }
		unique_array<Tracked> *UA; std::vector<uint32_t> MU; { Sut s; UA = new unique_array<Tracked>(); }
		map<int, Tracked> *MPS[2]; std::vector<std::pair<int, uint32_t>> MMS[2]; for (auto &m : MPS) { Sut s; m = new map<int, Tracked>(); }
		log.ev("arrays kind=cxx-tracked (typed_array / unique_array / map of tracked elements)");
		st.hit("kind:cxx_tracked");
		auto read_arr = [&](const Tracked *b, long n, std::vector<uint32_t> &out, std::set<uint32_t> &ids, const char *after, const char *what) {
			out.clear();
			for (long i = 0; i < n; ++i) {
				if (b[i].magic != MAGIC || !T.live.count(b[i].id)) fail("dead-element", "after %s: %s element %ld of %ld is not alive (magic %08x id %u)", after, what, i, n, b[i].magic, b[i].id);
				out.push_back(T.live[b[i].id]); ids.insert(b[i].id);
			}
		};
		auto verifyT = [&](const char *after, int operated) {
			check_pending();
			std::set<uint32_t> ids;
			for (int h = 0; h < 3; ++h) {
				std::vector<uint32_t> got; read_arr(TA[h]->begin(), TA[h]->length(), got, ids, after, "typed_array");
				if (got != MT[h]) {
					size_t k = 0; while (k < got.size() && k < MT[h].size() && got[k] == MT[h][k]) ++k;
					fail(h == operated ? "wrong-content" : "other-handle-changed", "after %s on typed_array %d: typed_array %d reads %zu elements, a value-semantics vector holds %zu (first difference at %zu)", after, operated, h, got.size(), MT[h].size(), k);
				}
			}
			{ std::vector<uint32_t> got; read_arr(UA->begin(), UA->length(), got, ids, after, "unique_array"); if (got != MU) fail(operated == 3 ? "wrong-content" : "other-handle-changed", "after %s: unique_array reads %zu elements, model holds %zu", after, got.size(), MU.size()); }
			for (int mi = 0; mi < 2; ++mi) { map<int, Tracked> *MP = MPS[mi]; std::vector<std::pair<int, uint32_t>> &MM = MMS[mi];
			  long n = (long) (MP->end() - MP->begin()); if ((size_t) n != MM.size()) fail(operated == 4 + mi ? "wrong-content" : "other-handle-changed", "after %s: map %d holds %ld entries, model %zu", after, mi, n, MM.size());
			  for (long i = 0; i < n; ++i) { const map<int, Tracked>::entry &e = MP->begin()[i]; if (e.value.magic != MAGIC || !T.live.count(e.value.id)) fail("dead-element", "after %s: map %d entry %ld holds a dead element", after, mi, i); ids.insert(e.value.id);
			    if (e.key != MM[(size_t) i].first || T.live[e.value.id] != MM[(size_t) i].second) fail(operated == 4 + mi ? "wrong-content" : "other-handle-changed", "after %s: map %d entry %ld is (%d -> %x), a value-semantics map holds (%d -> %x)", after, mi, i, e.key, T.live[e.value.id], MM[(size_t) i].first, MM[(size_t) i].second); } }
			if (ids.size() != T.live.size()) fail("element-leak", "after %s: %zu elements alive, %zu reachable through the containers (constructed and never destroyed)", after, T.live.size(), ids.size());
		};
		for (const Op &op : p.ops) {
			int h = (int) (op.a & 0xff) % 3, h2 = (int) ((op.a >> 8) & 0xff) % 3;
			long usedn = TA[h]->length();
			long pos = (long) sel(op.b & 0xff, (int) ((op.b >> 8) & 0xf), (size_t) usedn, (size_t) usedn + 2, (uint64_t) op.c); if (pos > 40) pos = 40;
			bool neg = (op.c % 6) == 0 && usedn; long upos = neg ? -(long) (1 + (size_t) op.c % (size_t) usedn) : pos; long apos = neg ? usedn + upos : pos;
			uint64_t failn = op.fault == FL_ALLOC ? (uint64_t) std::max<int64_t>(op.fa, 1) : 0, fired = 0;
			uint32_t val = T.next_value++; int outcome = 0; int operated = h;
			st.hit(std::string("op:") + OPS[op.kind]);
			switch (op.kind) {
			case OP_X_ASSIGN: { { Sut s; *TA[h] = *TA[h2]; } MT[h] = MT[h2]; log.ev("X_ASSIGN typed %d = %d", h, h2); outcome = 1; break; }
			case OP_X_RELEASE: { { Sut s; *TA[h] = typed_array<Tracked>(); } MT[h].clear(); log.ev("X_RELEASE typed %d", h); outcome = 1; break; }
			case OP_X_TINSERT: {
				if ((op.c & 0x300) == 0x300 && usedn > 0 && !failn) {
					// the value to insert is an element of this very array (as a vector allows): the copy must be of that element as it was
					long k = (long) ((op.c >> 10) % (size_t) usedn); uint32_t src = MT[h][(size_t) k];
					const Tracked *own = TA[h]->get(k); bool ok;
					{ Sut s; ok = own && TA[h]->insert(upos, *own); }
					log.ev("X_TINSERT typed %d pos=%ld from own element %ld -> %d", h, upos, k, (int) ok); st.hit("probe:insert_own_element");
					if (ok) { if ((size_t) apos > MT[h].size()) MT[h].resize((size_t) apos, 0); MT[h].insert(MT[h].begin() + apos, src); outcome = 1; }
					else fail("refused-valid", "typed_array insert of its own element %ld at %ld refused", k, upos);
					break;
				}
				bool ok; { Tracked tmp(val); Sut s(failn); ok = TA[h]->insert(upos, tmp); fired = g.fired; }
				log.ev("X_TINSERT typed %d pos=%ld%s -> %d", h, upos, fired ? " allocfail" : "", (int) ok);
				if (ok) { if ((size_t) apos > MT[h].size()) MT[h].resize((size_t) apos, 0); MT[h].insert(MT[h].begin() + apos, val); outcome = 1; }
				else if (!fired) fail("refused-valid", "typed_array insert at %ld of %ld refused without allocation fault", upos, usedn);
				break;
			}
			case OP_X_UINSERT: {
				operated = 3; long un = UA->length(); long up = (long) ((size_t) op.c % (size_t) (un + 2));
				Tracked *t; { Sut s(failn); t = UA->insert(up); fired = g.fired; }
				log.ev("X_UINSERT unique pos=%ld of %ld%s -> %s", up, un, fired ? " allocfail" : "", t ? "ok" : "null");
				if (t) { if ((size_t) up > MU.size()) MU.resize((size_t) up, 0); MU.insert(MU.begin() + up, 0); { Tracked tmp(val); *t = tmp; } MU[(size_t) up] = val; outcome = 1; }
				else if (!fired) fail("refused-valid", "unique_array insert at %ld of %ld refused without allocation fault", up, un);
				break;
			}
			case OP_X_TSET: {
				bool ok; { Tracked tmp(val); Sut s(failn); ok = TA[h]->set(upos, tmp); fired = g.fired; }
				bool valid = neg ? true : pos < usedn;
				log.ev("X_TSET typed %d pos=%ld of %ld%s -> %d", h, upos, usedn, fired ? " allocfail" : "", (int) ok);
				if (!valid) { if (ok) fail("accepted-invalid", "typed_array set at %ld accepted with %ld elements", upos, usedn); }
				else if (ok) { MT[h][(size_t) apos] = val; outcome = 1; }
				else if (!fired) fail("refused-valid", "typed_array set at %ld of %ld refused without allocation fault", upos, usedn);
				Tracked *g0; { Sut s; g0 = TA[h]->get(upos); }
				if (valid != (g0 != 0)) fail(valid ? "refused-valid" : "accepted-invalid", "typed_array get at %ld with %ld elements gives %s", upos, usedn, g0 ? "an element" : "nothing");
				break;
			}
			case OP_X_RESIZE: {
				long n = (long) ((size_t) op.c % 12);
				bool ok; { Sut s(failn); ok = TA[h]->resize(n); fired = g.fired; }
				log.ev("X_RESIZE typed %d to %ld (from %ld)%s -> %d", h, n, usedn, fired ? " allocfail" : "", (int) ok);
				if (ok) { MT[h].resize((size_t) n, 0); outcome = 1; }
				else if (!fired) fail("refused-valid", "typed_array resize to %ld refused without allocation fault", n);
				break;
			}
			case OP_X_RESERVE: {
				long n = (long) ((size_t) op.c % 20);
				bool ok; { Sut s(failn); ok = TA[h]->reserve(n); fired = g.fired; }
				log.ev("X_RESERVE typed %d %ld%s -> %d", h, n, fired ? " allocfail" : "", (int) ok);
				// content stays, whatever the request and whoever shares the buffer
				outcome = ok;
				break;
			}
			case OP_X_DETACH: {
				bool ok; { Sut s(failn); ok = TA[h]->detach(); fired = g.fired; }
				log.ev("X_DETACH typed %d%s -> %d", h, fired ? " allocfail" : "", (int) ok);
				if (!ok && !fired) fail("refused-valid", "typed_array detach refused without allocation fault");
				outcome = ok;
				// on the now private buffer: the C++ buffer methods that drop, copy or take over elements
				content<Tracked> *c = ok ? TA[h]->_ref.instance() : 0; unsigned act = (unsigned) (op.c / 3) % 4;
				if (c && !c->shared() && act) {
					const size_t es = sizeof(Tracked);
					if (act == 1 && (op.c & 0x80)) {
						// raw bytes are not elements: moving a raw buffer into the typed one (or the typed one into a raw one) is refused, as copy refuses it
						buffer *raw; { Sut s; raw = buffer::create(64); if (raw) { void *w = raw->append(16); if (w) memset(w, 0x5a, 16); } }
						if (raw) {
							bool r1, r2; { Sut s; r1 = c->move(*raw); }
							if (r1) fail("accepted-invalid", "buffer move of 16 raw bytes into a buffer of managed elements was accepted (they will be handed to the element destructor)");
							{ Sut s; r2 = raw->move(*c); }
							if (r2) fail("accepted-invalid", "buffer move of %zu managed elements into a raw buffer was accepted (nobody will destroy them)", MT[h].size());
							{ Sut s; raw->unref(); }
							st.hit("probe:buffer_move_type_mismatch");
						}
					} else if (act == 1) {
						size_t k = MT[h].empty() ? 0 : (size_t) op.c % (MT[h].size() + 1); bool r; { Sut s; r = c->skip(k * es); }
						log.ev("    buffer skip %zu of %zu -> %d", k, MT[h].size(), (int) r);
						if (!r) fail("refused-valid", "buffer skip of %zu elements refused with %zu present", k, MT[h].size());
						MT[h].erase(MT[h].begin(), MT[h].begin() + (ptrdiff_t) k);
					} else if (h2 != h) {
						bool ok2; { Sut s; ok2 = TA[h2]->detach(); }
						content<Tracked> *f = ok2 ? TA[h2]->_ref.instance() : 0;
						if (f && !f->shared() && f != c) {
							bool fits = c->_size >= f->_used;
							if (act == 2) {
								bool r; { Sut s; r = c->copy(*f); }
								log.ev("    buffer copy from %d (%zu elements into capacity %zu) -> %d", h2, MT[h2].size(), (size_t) c->_size / es, (int) r);
								if (r) MT[h] = MT[h2]; else if (fits && !T.fired) fail("refused-valid", "buffer copy of %zu elements refused although they fit", MT[h2].size());
							} else {
								bool r; { Sut s; r = c->move(*f); }
								log.ev("    buffer move from %d (%zu elements into capacity %zu) -> %d", h2, MT[h2].size(), (size_t) c->_size / es, (int) r);
								if (r) { MT[h] = MT[h2]; MT[h2].clear(); } else if (fits) fail("refused-valid", "buffer move of %zu elements refused although they fit", MT[h2].size());
							}
						}
					}
				}
				break;
			}
			case OP_X_MAP: {
				int mi = (int) ((op.c / 5) % 2); map<int, Tracked> *MP = MPS[mi]; std::vector<std::pair<int, uint32_t>> &MM = MMS[mi];
				operated = 4 + mi; int key = (int) (op.c % 5); int v = (int) (op.b % 4);
				if (v == 0 || v == 1) {
					bool ok; { Tracked tmp(val); Sut s(failn); ok = v == 0 ? MP->set(key, tmp) : MP->append(key, tmp); fired = g.fired; }
					log.ev("X_MAP %d %s key %d%s -> %d", mi, v == 0 ? "set" : "append", key, fired ? " allocfail" : "", (int) ok);
					if (ok) { bool found = false; if (v == 0) for (auto &e : MM) if (e.first == key) { e.second = val; found = true; break; } if (!found) MM.emplace_back(key, val); outcome = 1; }
					else if (!fired) fail("refused-valid", "map %s refused without allocation fault", v == 0 ? "set" : "append");
				} else if (v == 3) {
					// the other map becomes a copy of this one: both now share one buffer
					{ Sut s; *MPS[1 - mi] = *MP; } MMS[1 - mi] = MM; operated = 4 + (1 - mi);
					log.ev("X_MAP %d = %d (%zu entries)", 1 - mi, mi, MM.size()); st.hit("probe:map_copied"); outcome = 1;
				} else {
					Tracked *g0; { Sut s; g0 = MP->get(key); }
					const std::pair<int, uint32_t> *want = 0; for (auto &e : MM) if (e.first == key) { want = &e; break; }
					log.ev("X_MAP %d get key %d -> %s", mi, key, g0 ? "value" : "absent");
					if ((g0 != 0) != (want != 0)) fail("wrong-content", "map get(%d) gives %s, model %s", key, g0 ? "a value" : "nothing", want ? "has one" : "has none");
					if (g0 && (g0->magic != MAGIC || !T.live.count(g0->id) || T.live[g0->id] != want->second)) fail("wrong-content", "map get(%d) returns another entry's value or dead memory", key);
				}
				break;
			}
			case OP_X_PTRS: {
				// pointer_array: null entries are dropped by compact, order of the others is kept
				pointer_array<int> pa; static int cells[8]; std::vector<int *> mp;
				int n = (int) (op.c % 7);
				for (int i = 0; i < n; ++i) { int *v = ((op.c >> i) & 1) ? &cells[i] : 0; bool ok; { Sut s; ok = pa.insert(pa.length(), v); } if (!ok) fail("refused-valid", "pointer_array insert refused"); mp.push_back(v); }
				pointer_array<int> pb; if (op.b & 1) { Sut s; pb = pa; }
				{ Sut s(failn); pa.compact(); fired = g.fired; }
				std::vector<int *> want; for (int *v : mp) if (v) want.push_back(v);
				// with a copy around compaction needs a buffer of its own: when that allocation fails the array keeps what it had
				if (fired && (size_t) pa.length() == mp.size()) { bool same = true; for (size_t i = 0; i < mp.size(); ++i) if (pa.begin()[i] != mp[i]) same = false; if (same) want = mp; st.hit("probe:pointer_array_compact_allocfail"); }
				if ((size_t) pa.length() != want.size()) fail("wrong-content", "pointer_array compact%s leaves %ld entries, %zu are non-null (of %zu)", fired ? " under an allocation failure" : "", pa.length(), want.size(), mp.size());
				for (size_t i = 0; i < want.size(); ++i) if (pa.begin()[i] != want[i]) fail("wrong-content", "pointer_array compact changed the order at %zu", i);
				if (op.b & 1) { if ((size_t) pb.length() != mp.size()) fail("other-handle-changed", "compact through one pointer_array changed the copy (%ld entries, was %zu)", pb.length(), mp.size()); for (size_t i = 0; i < mp.size(); ++i) if (pb.begin()[i] != mp[i]) fail("other-handle-changed", "compact through one pointer_array changed entry %zu of the copy", i); }
				// swap of two entries: positions outside the data are refused, a copy taken before keeps its order
				{
					pointer_array<int> pc; { Sut s; pc = pa; }
					std::vector<int *> cur(pa.begin(), pa.begin() + pa.length()); long len = (long) cur.size();
					long p1 = (long) ((op.c >> 8) % (uint64_t) (len + 3)) - 1, p2 = (long) ((op.c >> 12) % (uint64_t) (len + 3)) - 1;
					bool ok; { Sut s; ok = pa.swap(p1, p2); }
					bool valid = p1 >= 0 && p2 >= 0 && p1 < len && p2 < len;
					log.ev("X_PTRS swap(%ld, %ld) of %ld -> %d", p1, p2, len, (int) ok);
					if (ok && !valid) fail("accepted-invalid", "pointer_array swap(%ld, %ld) accepted on %ld entries", p1, p2, len);
					if (!ok && valid) fail("refused-valid", "pointer_array swap(%ld, %ld) refused on %ld entries", p1, p2, len);
					std::vector<int *> exp = cur; if (ok && valid) std::swap(exp[(size_t) p1], exp[(size_t) p2]);
					if (pa.length() != (long) exp.size()) fail("wrong-content", "pointer_array has %ld entries after swap(%ld, %ld), had %ld", pa.length(), p1, p2, len);
					for (size_t i = 0; i < exp.size(); ++i) if (pa.begin()[i] != exp[i]) fail("wrong-content", "pointer_array entry %zu is wrong after swap(%ld, %ld)", i, p1, p2);
					if (pc.length() != len) fail("other-handle-changed", "swap through one pointer_array changed the length of its copy");
					for (size_t i = 0; i < cur.size(); ++i) if (pc.begin()[i] != cur[i]) fail("other-handle-changed", "swap(%ld, %ld) through one pointer_array reordered its copy (entry %zu)", p1, p2, i);
					st.hit("probe:pointer_array_swap");
				}
				log.ev("X_PTRS %d entries -> %zu after compact", n, want.size());
				outcome = (int) want.size();
				operated = -1;
				break;
			}
			}
			if (fired) st.hit("fault:allocfail");
			st.state(270 + op.kind, (fired ? 4 : 0) + (neg ? 2 : 0) + (pos > usedn ? 1 : 0) + 8 * (int) std::min<long>(usedn, 3), outcome);
			verifyT(OPS[op.kind], operated);
		}
		for (auto &a : TA) { Sut s; delete a; a = 0; }
		{ Sut s; delete UA; delete MPS[0]; delete MPS[1]; }
		check_pending();
		if (!T.live.empty()) fail("element-leak", "%zu element(s) still alive after the last C++ container went away", T.live.size());
		if (ledger_live()) fail("leak", "%zu block(s) still allocated after the last C++ container went away: %s", ledger_live(), ledger_describe().c_str());
		st.hit("elements_constructed", T.inits); st.hit("elements_destroyed", T.finis);
	}
};

namespace sim { World *the_world() { static ArraysWorld w; return &w; } }
