/* libmpt++ overrides mpt_meta_buffer() with its own implementation, so in a program that links the
 * C++ layer (as every world does) the C implementation in mptcore/array/meta_buffer.c never runs.
 * The harness compiles that file unchanged into this unit under other names to drive it as well.
 * No source change in /repo. */
#define mpt_meta_buffer    verif_c_meta_buffer
#define mpt_meta_arguments verif_c_meta_arguments
#include "array/meta_buffer.c"
