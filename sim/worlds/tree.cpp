// world `tree` (C14): history on a small node population; after every operation a
// full structural audit of all live nodes plus conservation (who is alive, who is
// whose parent, relative order of untouched siblings).  Values are harness
// metatypes that count references and may refuse to be cloned; allocations fail
// inside clone/merge.
#include "worlds/common.hpp"
#include <functional>

using namespace sim;
using namespace mpt;

enum { OP_NEW, OP_INSERT, OP_ADD, OP_AFTER, OP_BEFORE, OP_UNLINK, OP_MOVE, OP_CLONE, OP_LIST_CLONE, OP_TREE_CLONE, OP_SWAP, OP_RELINK, OP_CLEAR, OP_DESTROY, OP_QUERY, OP_SWITCH, OP_TEXT_CLONE, OP_CXX_COPY };
static const char *const OPS[] = {"NEW", "INSERT", "ADD", "AFTER", "BEFORE", "UNLINK", "MOVE", "CLONE", "LIST_CLONE", "TREE_CLONE", "SWAP", "RELINK", "CLEAR", "DESTROY", "QUERY", "SWITCH", "TEXT_CLONE", "CXX_COPY", 0};
enum { FL_NONE, FL_ALLOC };
static const char *const FAULTS[] = {"none", "allocfail", 0};
static const std::string LONGNAME(300, 'L');  // longer than any node's inline name capacity: stored in its own allocation
static const char *const NAMES[] = {"a", "b", "c", "", "a-rather-long-node-name-beyond-the-inline-size-of-the-identifier-0123456789", "bb", LONGNAME.c_str()};
static const int NNAMES = 7;

// value object: counts references, may refuse clone
struct HMeta;
static std::set<HMeta *> g_meta_live;
static uint64_t g_meta_made, g_meta_destroyed;
struct HMeta : public metatype {
	uint32_t value; int refs; bool clonable;
	HMeta(uint32_t v, bool c) : value(v), refs(1), clonable(c) { g_meta_live.insert(this); ++g_meta_made; }
	int convert(type_t, void *) override { return BadType; }
	void unref() override {
		Harness h;
		if (!g_meta_live.count(this)) { pend("value-double-release", "value object released after it was destroyed"); return; }
		if (--refs > 0) return;
		g_meta_live.erase(this); ++g_meta_destroyed;
		delete this;
	}
	uintptr_t addref() override { Harness h; return (uintptr_t) ++refs; }
	metatype *clone() const override { Harness h; if (!clonable) return 0; return new HMeta(value, true); }
	~HMeta() {}
};

struct TreeWorld : World {
	TreeWorld() { registry_global = true; }      // text values register their metatype on first use: process-global by design
	const char *name() const override { return "tree"; }
	const char *const *opnames() const override { return OPS; }
	const char *const *faultnames() const override { return FAULTS; }
	const char *components_json() const override {
		return "{\"real\":[\"mpt_node_new/destroy/clear/unlink\",\"mpt_gnode_insert/add/after/before/pos\",\"mpt_node_insert/add/locate/find/next\",\"mpt_node_move\",\"mpt_node_clone\",\"mpt_list_clone\",\"mpt_tree_clone\","
		       "\"mpt_gnode_swap/switch/relink\",\"mpt_identifier_set/copy (node names)\"],"
		       "\"stub\":[\"node values = harness metatypes counting references, optionally not clonable\",\"allocator (ledger + n-th allocation fails)\",\"structural audit + conservation model\"]}";
	}
	void gen(Rng &r, Plan &p, int tier) override {
		int nops = (int) r.range(1, tier ? 120 : 60);
		bool allocf = r.chance(1, 3);
		for (int i = 0; i < nops; ++i) {
			Op op;
			static const int kinds[] = {OP_NEW, OP_NEW, OP_NEW, OP_INSERT, OP_INSERT, OP_INSERT, OP_ADD, OP_ADD, OP_AFTER, OP_BEFORE, OP_UNLINK, OP_UNLINK, OP_MOVE, OP_CLONE, OP_LIST_CLONE, OP_TREE_CLONE, OP_TREE_CLONE,
			                            OP_SWAP, OP_CLEAR, OP_DESTROY, OP_DESTROY, OP_QUERY, OP_TEXT_CLONE, OP_SWITCH, OP_RELINK, OP_CXX_COPY};
			op.kind = r.pick(kinds);
			op.a = r.below(64) | (r.below(64) << 8);  // node selectors
			op.b = r.range(-3, 3);                    // position
			op.c = r.below(7) | (r.below(3) << 8) | ((r.chance(1, 2) ? 1 : 0) << 12); // name, value kind (0 none, 1 clonable, 2 not clonable), by-name variant
			if (allocf && r.chance(1, 3)) { op.fault = FL_ALLOC; op.fa = r.range(1, 6); }
			p.ops.push_back(op);
		}
	}

	// ---- population
	struct Info { int id; std::string name; uint32_t value; bool has_value; };
	std::map<node *, Info> pop;       // live nodes
	int next_id = 0; uint32_t next_value = 1;
	std::vector<node *> order() { std::vector<std::pair<int, node *>> v; for (auto &kv : pop) v.emplace_back(kv.second.id, kv.first); std::sort(v.begin(), v.end()); std::vector<node *> o; for (auto &e : v) o.push_back(e.second); return o; }
	node *pick(int64_t sel) { if (pop.empty()) return 0; auto o = order(); return o[(size_t) sel % o.size()]; }
	int idof(node *n) { return n ? (pop.count(n) ? pop[n].id : -2) : -1; }
	static bool linked(node *n) { return n->parent || n->next || n->prev; }
	bool is_ancestor(node *a, node *n) { size_t g = 0; for (node *p = n; p && g < 1000; p = p->parent, ++g) if (p == a) return true; return false; }
	// nodes in the same sibling list
	std::vector<node *> siblings(node *n) { node *f = n; size_t g = 0; while (f->prev && ++g < 1000) f = f->prev; std::vector<node *> v; for (; f && v.size() < 1000; f = f->next) v.push_back(f); return v; }
	void adopt(node *n, size_t &guard) { // register nodes created by the library (clones)
		for (; n && ++guard < 5000; n = n->next) {
			if (!pop.count(n)) {
				Info i; i.id = next_id++;
				const char *id = mpt_node_ident(n); i.name = id ? id : "";
				HMeta *m = n->_meta ? static_cast<HMeta *>(n->_meta) : 0;
				i.has_value = m != 0; i.value = m ? m->value : 0;
				pop[n] = i;
			}
			adopt(n->children, guard);
		}
	}
	void forget(node *n, size_t &guard) { for (node *c = n->children; c && ++guard < 5000; c = c->next) forget(c, guard); pop.erase(n); }

	struct Place { node *parent; int index; };
	std::map<node *, Place> places() {
		std::map<node *, Place> m;
		for (auto &kv : pop) {
			node *n = kv.first; int idx = 0; size_t g = 0;
			for (node *q = n->prev; q && ++g < 1000; q = q->prev) ++idx;
			m[n] = Place{n->parent, idx};
		}
		return m;
	}
	void audit(const char *after) {
		check_pending();
		for (auto &kv : pop) {
			node *n = kv.first; int id = kv.second.id;
			auto known = [&](node *q, const char *what) { if (q && !pop.count(q)) fail("dangling-link", "after %s: node %d has a %s link to a node that is not alive", after, id, what); };
			known(n->next, "next"); known(n->prev, "prev"); known(n->parent, "parent"); known(n->children, "first-child");
			if (n->next == n || n->prev == n || n->parent == n || n->children == n) fail("self-link", "after %s: node %d links to itself", after, id);
			if (n->next && n->next->prev != n) fail("links-disagree", "after %s: node %d -> next %d, whose prev is %d", after, id, idof(n->next), idof(n->next->prev));
			if (n->prev && n->prev->next != n) fail("links-disagree", "after %s: node %d -> prev %d, whose next is %d", after, id, idof(n->prev), idof(n->prev->next));
			if (n->next && n->next->parent != n->parent) fail("parent-disagree", "after %s: siblings %d and %d name different parents (%d, %d)", after, id, idof(n->next), idof(n->parent), idof(n->next->parent));
			if (!n->prev && n->parent && n->parent->children != n) fail("head-disagree", "after %s: node %d is first of its list and names parent %d, whose first child is %d", after, id, idof(n->parent), idof(n->parent->children));
			if (n->children) {
				if (n->children->prev) fail("head-disagree", "after %s: first child %d of node %d has a predecessor", after, idof(n->children), id);
				if (n->children->parent != n) fail("parent-disagree", "after %s: first child %d of node %d names parent %d", after, idof(n->children), id, idof(n->children->parent));
			}
			// name and value as recorded
			const char *nm = mpt_node_ident(n);
			if (kv.second.name != (nm ? nm : "")) fail("content", "after %s: node %d is named '%s', was '%s'", after, id, nm ? nm : "", kv.second.name.c_str());
			HMeta *m = n->_meta ? static_cast<HMeta *>(n->_meta) : 0;
			if ((m != 0) != kv.second.has_value) fail("content", "after %s: node %d %s a value", after, id, m ? "gained" : "lost");
			if (m && !g_meta_live.count(m)) fail("value-released", "after %s: node %d holds a value object that was destroyed", after, id);
			if (m && m->value != kv.second.value) fail("content", "after %s: node %d value changed", after, id);
		}
		// acyclic: parent chains and sibling chains end
		for (auto &kv : pop) {
			size_t g = 0; for (node *q = kv.first; q; q = q->parent) if (++g > pop.size() + 1) fail("cycle", "after %s: parent chain of node %d does not end", after, kv.second.id);
			g = 0; for (node *q = kv.first; q; q = q->next) if (++g > pop.size() + 1) fail("cycle", "after %s: sibling chain of node %d does not end", after, kv.second.id);
		}
		// every child reachable from its parent's list exactly once is implied by the link agreement above;
		// children lists must contain only nodes naming that parent
		for (auto &kv : pop) {
			size_t g = 0;
			for (node *c = kv.first->children; c && ++g < 5000; c = c->next) if (c->parent != kv.first) fail("parent-disagree", "after %s: node %d is in the child list of %d but names parent %d", after, idof(c), kv.second.id, idof(c->parent));
		}
		// allocations: one block per live node (+1 for names stored separately)
		size_t ext = 0; for (auto &kv : pop) if (kv.first->ident._len > kv.first->ident._max) ++ext;
		if (ledger_live() != pop.size() + ext)
			fail("node-accounting", "after %s: %zu live nodes (%zu with separately stored names) but %zu blocks allocated: %s", after, pop.size(), ext, ledger_live(), ledger_describe().c_str());
		// values: every live value object is held by exactly refs nodes
		std::map<HMeta *, int> holders;
		for (auto &kv : pop) if (kv.first->_meta) ++holders[static_cast<HMeta *>(kv.first->_meta)];
		for (HMeta *m : g_meta_live) { int h = holders.count(m) ? holders[m] : 0; if (h != m->refs) fail("value-accounting", "after %s: a value object has %d references but %d nodes hold it", after, m->refs, h); }
	}
	// relative order of siblings that the operation did not move
	void check_order(const char *after, const std::map<node *, Place> &before, const std::set<node *> &moved) {
		std::map<node *, Place> now = places();
		for (auto &a : before) for (auto &b : before) {
			if (a.first >= b.first || moved.count(a.first) || moved.count(b.first)) continue;
			if (!now.count(a.first) || !now.count(b.first)) continue;
			if (a.second.parent != b.second.parent || now[a.first].parent != now[b.first].parent) continue;
			// same list before? (parentless lists: compare by shared sibling chain) -- only compare when they were in one chain
			bool was_chain = false; { size_t g = 0; for (node *q = a.first; q && ++g < 1000; q = q->next) if (q == b.first) was_chain = true; g = 0; for (node *q = a.first; q && ++g < 1000; q = q->prev) if (q == b.first) was_chain = true; }
			if (!was_chain) continue;
			bool before_lt = a.second.index < b.second.index, now_lt = now[a.first].index < now[b.first].index;
			bool still_chain = false; { size_t g = 0; for (node *q = a.first; q && ++g < 1000; q = q->next) if (q == b.first) still_chain = true; g = 0; for (node *q = a.first; q && ++g < 1000; q = q->prev) if (q == b.first) still_chain = true; }
			if (still_chain && before_lt != now_lt) fail("order-changed", "after %s: untouched siblings %d and %d swapped their order", after, idof(a.first), idof(b.first));
		}
	}
	node *make(int nameidx, int vkind, uint64_t failn, uint64_t &fired) {
		const char *nm = NAMES[nameidx % NNAMES]; size_t nl = strlen(nm);
		node *n; { Sut s(failn); n = mpt_node_new(nl + 1); fired = g.fired; }
		if (!n) return 0;
		if (nl) { void *r; { Sut s(failn > 1 ? failn - 1 : 0); r = mpt_identifier_set(&n->ident, nm, (int) nl); fired += g.fired; } if (!r) { { Sut s; mpt_node_destroy(n); } return 0; } }
		Info i; i.id = next_id++; i.name = nm; i.has_value = vkind != 0; i.value = 0;
		if (vkind) { HMeta *m = new HMeta(next_value++, vkind == 1); n->_meta = m; i.value = m->value; }
		pop[n] = i;
		return n;
	}
	bool same_shape(const node *a, const node *b, size_t &guard, std::string &why) {
		for (; a || b; a = a->next, b = b->next) {
			if (++guard > 5000) { why = "walk does not end"; return false; }
			if (!a || !b) { why = "different number of siblings"; return false; }
			const char *na = mpt_node_ident(a), *nb = mpt_node_ident(b);
			if (std::string(na ? na : "") != std::string(nb ? nb : "")) { why = "names differ"; return false; }
			const HMeta *ma = a->_meta ? static_cast<const HMeta *>(a->_meta) : 0, *mb = b->_meta ? static_cast<const HMeta *>(b->_meta) : 0;
			if ((ma != 0) != (mb != 0) || (ma && ma->value != mb->value)) { why = "values differ"; return false; }
			if (ma && ma == mb) { why = "clone shares the value object without holding a reference of its own"; /* allowed only if refs account, checked in audit */ }
			if (a == b) { why = "clone shares a node with its source"; return false; }
			if (!same_shape(a->children, b->children, guard, why)) return false;
		}
		return true;
	}

	void exec(const Plan &p, Log &log, Stats &st) override {
		pop.clear(); next_id = 0; next_value = 1;
		g_meta_live.clear(); g_meta_made = g_meta_destroyed = 0;
		log.ev("tree");
		for (const Op &op : p.ops) {
			node *x = pick(op.a & 0xff), *y = pick((op.a >> 8) & 0xff);
			int pos = (int) op.b; bool byname = (op.c >> 12) & 1;
			uint64_t failn = op.fault == FL_ALLOC ? (uint64_t) std::max<int64_t>(op.fa, 1) : 0, fired = 0;
			std::map<node *, Place> before = places();
			std::set<node *> moved;
			int outcome = 0;
			int depth = 0; if (x) for (node *q = x; q->parent && depth < 8; q = q->parent) ++depth;
			st.hit(std::string("op:") + OPS[op.kind]);
			switch (op.kind) {
			case OP_NEW: {
				if (pop.size() >= 12) break;
				node *n = make((int) (op.c & 0xff), (int) ((op.c >> 8) & 3), failn, fired);
				log.ev("NEW name='%.12s' value=%d%s -> %d", NAMES[(op.c & 0xff) % NNAMES], (int) ((op.c >> 8) & 3), fired ? " allocfail" : "", idof(n));
				outcome = n ? 1 : 0;
				break;
			}
			case OP_INSERT: {
				if (!x || !y || x == y || linked(y) || is_ancestor(y, x)) break;
				int rc; { Sut s; rc = byname ? mpt_node_insert(x, pos, y) : mpt_gnode_insert(x, pos, y); }
				log.ev("INSERT%s parent %d pos %d child %d -> %d", byname ? "(by name)" : "", idof(x), pos, idof(y), rc);
				moved.insert(y);
				if (rc < 0) fail("refused-valid", "insert of an unlinked node refused");
				if (byname && !linked(y)) { outcome = 2; break; }
				if (y->parent != x) fail("wrong-parent", "after insert: node %d names parent %d, inserted under %d", idof(y), idof(y->parent), idof(x));
				{ bool found = false; size_t g = 0; for (node *c = x->children; c && ++g < 1000; c = c->next) if (c == y) found = true; if (!found) fail("lost-node", "after insert: node %d is not in the child list of %d", idof(y), idof(x)); }
				outcome = 1;
				break;
			}
			case OP_ADD: case OP_AFTER: case OP_BEFORE: {
				if (!x || !y || x == y || linked(y) || is_ancestor(y, x)) break;
				node *r;
				if (op.kind == OP_ADD) { Sut s; r = byname ? mpt_node_add(x, pos, y) : mpt_gnode_add(x, pos, y); }
				else if (op.kind == OP_AFTER) { Sut s; r = mpt_gnode_after(x, y); }
				else { Sut s; r = mpt_gnode_before(x, y); }
				log.ev("%s%s at %d pos %d node %d -> %d", OPS[op.kind], (op.kind == OP_ADD && byname) ? "(by name)" : "", idof(x), pos, idof(y), idof(r));
				moved.insert(y);
				if (r != y) fail("refused-valid", "%s of an unlinked node returned another node", OPS[op.kind]);
				// insertion by name may find no position and leave the node alone (structure stays sound; nothing in the statement forbids it)
				if (op.kind == OP_ADD && byname && !linked(y)) { outcome = 2; break; }
				if (y->parent != x->parent) fail("wrong-parent", "after %s: node %d names parent %d, the list of %d belongs to %d", OPS[op.kind], idof(y), idof(y->parent), idof(x), idof(x->parent));
				{ auto sib = siblings(x); if (std::find(sib.begin(), sib.end(), y) == sib.end()) fail("lost-node", "after %s: node %d is not in the list of %d", OPS[op.kind], idof(y), idof(x)); }
				if (op.kind == OP_AFTER && x->next != y) fail("wrong-position", "after AFTER: node %d does not follow %d", idof(y), idof(x));
				if (op.kind == OP_BEFORE && x->prev != y) fail("wrong-position", "after BEFORE: node %d does not precede %d", idof(y), idof(x));
				outcome = 1;
				break;
			}
			case OP_UNLINK: {
				if (!x) break;
				node *nx = x->next; node *first_child = x->children;
				node *r; { Sut s; r = mpt_node_unlink(x); }
				log.ev("UNLINK %d -> next %d", idof(x), idof(r));
				moved.insert(x);
				if (linked(x)) fail("still-linked", "after unlink: node %d still has parent/sibling links", idof(x));
				if (x->children != first_child) fail("lost-node", "unlink detached the children of node %d", idof(x));
				if (r != nx) fail("wrong-position", "unlink returned node %d, successor was %d", idof(r), idof(nx));
				outcome = 1;
				break;
			}
			case OP_MOVE: {
				// merge the list headed by the first sibling of x into the list of y (different lists, neither inside the other)
				if (!x || !y) break;
				node *hx = siblings(x)[0], *hy = siblings(y)[0];
				if (hx == hy) break;
				bool bad = false;
				for (node *q : siblings(hx)) if (is_ancestor(q, hy)) bad = true;
				for (node *q : siblings(hy)) if (is_ancestor(q, hx)) bad = true;
				if (bad) break;
				node *xp = hx->parent;
				node *local_head = hx;
				node **fromp = xp ? &xp->children : &local_head;   // like mpt_parse_node: the head lives in the parent when there is one
				node *&from = *fromp;
				size_t nbefore = pop.size();
				for (node *q : siblings(hx)) moved.insert(q);
				{ size_t g = 0; std::vector<node *> stack = siblings(hx); while (!stack.empty() && ++g < 5000) { node *q = stack.back(); stack.pop_back(); moved.insert(q); for (node *c = q->children; c; c = c->next) stack.push_back(c); } }
				size_t mv; { Sut s; mv = mpt_node_move(fromp, hy); }
				if (from && from->prev) fail("head-disagree", "after move: the source list head %d has a predecessor %d", idof(from), idof(from->prev));
				log.ev("MOVE list of %d into list of %d -> %zu moved, remaining head %d", idof(hx), idof(hy), mv, idof(from));
				if (pop.size() != nbefore) fail("lost-node", "move changed the number of live nodes");
				outcome = mv ? 1 : 2;
				break;
			}
			case OP_CLONE: case OP_LIST_CLONE: case OP_TREE_CLONE: {
				if (!x || pop.size() > 40) break;
				const node *src = op.kind == OP_LIST_CLONE ? siblings(x)[0] : x;
				size_t live_before = ledger_live(), meta_before = g_meta_live.size();
				node *c;
				if (op.kind == OP_CLONE) { Sut s(failn); c = mpt_node_clone(src); fired = g.fired; }
				else if (op.kind == OP_LIST_CLONE) { Sut s(failn); c = mpt_list_clone(src); fired = g.fired; }
				else { Sut s(failn); c = mpt_tree_clone(src); fired = g.fired; }
				log.ev("%s %d%s -> %s", OPS[op.kind], idof(const_cast<node *>(src)), fired ? " allocfail" : "", c ? "ok" : "null");
				check_pending();
				if (!c) {
					if (ledger_live() != live_before) fail("clone-leak", "failed %s left %zu block(s) allocated", OPS[op.kind], ledger_live() - live_before);
					if (g_meta_live.size() != meta_before) fail("clone-leak", "failed %s left %zu value object(s) alive", OPS[op.kind], g_meta_live.size() - meta_before);
					outcome = 0; break;
				}
				// shape, names, values at every depth; no shared node
				{
					size_t guard = 0; std::string why;
					bool ok;
					if (op.kind == OP_LIST_CLONE) ok = same_shape(src, c, guard, why);
					else {
						const char *na = mpt_node_ident(src), *nb = mpt_node_ident(c);
						ok = std::string(na ? na : "") == std::string(nb ? nb : "");
						if (!ok) why = "names differ";
						const HMeta *ma = src->_meta ? static_cast<const HMeta *>(src->_meta) : 0, *mb = c->_meta ? static_cast<const HMeta *>(c->_meta) : 0;
						if (ok && ((ma != 0) != (mb != 0) || (ma && ma->value != mb->value))) { ok = false; why = "values differ"; }
						if (ok && op.kind == OP_TREE_CLONE) ok = same_shape(src->children, c->children, guard, why);
						if (ok && op.kind == OP_CLONE && c->children) { ok = false; why = "node clone has children"; }
					}
					if (!ok) fail("clone-differs", "%s of node %d: %s", OPS[op.kind], idof(const_cast<node *>(src)), why.c_str());
				}
				if (c->parent || c->prev) fail("clone-linked", "%s result is linked into another structure", OPS[op.kind]);
				{ size_t g = 0; adopt(c, g); }
				outcome = 1;
				break;
			}
			case OP_SWAP: {
				if (!x || !y || x == y || is_ancestor(x, y) || is_ancestor(y, x)) break;
				for (node *c = x->children; c; c = c->next) moved.insert(c);
				for (node *c = y->children; c; c = c->next) moved.insert(c);
				{ Sut s; mpt_gnode_swap(x, y); }
				log.ev("SWAP children of %d and %d", idof(x), idof(y));
				outcome = 1;
				break;
			}
			case OP_SWITCH: {
				if (!x || !y || x == y || is_ancestor(x, y) || is_ancestor(y, x)) break;
				moved.insert(x); moved.insert(y);
				{ Sut s; mpt_gnode_switch(x, y); }
				log.ev("SWITCH %d and %d", idof(x), idof(y));
				outcome = 1;
				break;
			}
			case OP_TEXT_CLONE: {
				// a separate small tree whose values are the library's own text values (as a parsed configuration has them): the clone of
				// the clone still reads the same bytes at every depth - same length, same content
				static const size_t lens[] = {0, 1, 5, 100, 249, 250, 300};
				size_t ledger0 = ledger_live();
				auto mk = [&](const char *name, int lsel) -> node * {
					node *n; { Sut s; n = mpt_node_new(strlen(name) + 1); if (n && !mpt_identifier_set(&n->ident, name, -1)) { mpt_node_destroy(n); n = 0; } }
					if (!n) fail("setup", "node for the text clone");
					if (lsel >= 0) { std::string t(lens[lsel % 7], 'v'); for (size_t k = 0; k < t.size(); ++k) t[k] = (char) ('a' + k % 26); const char *cs = t.c_str(); value v; v.set('s', &cs); Sut s; n->_meta = mpt_meta_new(&v); }
					return n;
				};
				unsigned sel = (unsigned) op.a;
				node *root = mk("root", (int) (sel % 7)), *a = mk("a", (int) ((sel >> 3) % 7)), *a1 = mk("a1", (int) ((sel >> 6) % 7)), *b = mk("b", (sel & 0x200) ? -1 : (int) ((sel >> 10) % 7));
				{ Sut s; mpt_gnode_insert(root, 0, a); mpt_gnode_add(a, 0, b); mpt_gnode_insert(a, 0, a1); }
				struct Rel { node *n; ~Rel() { if (n) { Sut s; mpt_node_clear(n); mpt_node_destroy(n); } } };
				Rel r0{root};
				std::function<void(const node *, const node *, const char *, int)> same = [&](const node *s0, const node *c0, const char *what, int depth) {
					for (; s0 || c0; s0 = s0->next, c0 = c0->next) {
						if (!s0 || !c0) fail("clone-differs", "%s: the lists at depth %d differ in length", what, depth);
						size_t ls = 0, lc = 0; const char *ds, *dc; { Sut s; ds = mpt_node_data(s0, &ls); dc = mpt_node_data(c0, &lc); }
						if ((ds != 0) != (dc != 0)) fail("clone-differs", "%s: at depth %d one node has a value, its counterpart has none", what, depth);
						if (ds && (ls != lc || memcmp(ds, dc, ls))) fail("clone-differs", "%s: a value of %zu bytes at depth %d reads as %zu bytes in the copy", what, ls, depth, lc);
						if (mpt_identifier_inequal(&s0->ident, &c0->ident)) fail("clone-differs", "%s: names differ at depth %d", what, depth);
						same(s0->children, c0->children, what, depth + 1);
					}
				};
				node *c1; uint64_t fired; { Sut s(failn); c1 = mpt_tree_clone(root); fired = g.fired; }
				if (fired) st.hit("fault:allocfail");
				log.ev("TEXT_CLONE lengths %zu/%zu/%zu%s -> %s", lens[sel % 7], lens[(sel >> 3) % 7], lens[(sel >> 6) % 7], fired ? " allocfail" : "", c1 ? "ok" : "null");
				if (!c1) { if (!fired) fail("refused-valid", "clone of a tree with text values refused without allocation fault"); }
				else {
					Rel r1{c1};
					same(root, c1, "clone", 0);
					node *c2; { Sut s; c2 = mpt_tree_clone(c1); }
					if (c2) { Rel r2{c2}; same(root, c2, "clone of the clone", 0); }
					st.hit("probe:text_values_cloned");
				}
				r0.~Rel(); r0.n = 0;
				outcome = c1 ? 1 : 0;
				(void) ledger0;
				break;
			}
			case OP_CXX_COPY: {
				// a C++ copy of a node (copy construction or assignment) is a value of its own: it takes no place in the original's list, owns none of
				// its children and holds a reference of its own to the value; when it goes away the original is what it was
				if (!x) break;
				if (op.c & 1) { Sut s; node cp(*x); (void) cp; }
				else { Sut s; node cp; cp = *x; }
				log.ev("CXX_COPY of %d (%s)", idof(x), (op.c & 1) ? "copy construction" : "assignment");
				st.hit("probe:cxx_node_copied");
				outcome = 1;
				break;
			}
			case OP_RELINK: {
				if (!x) break;
				// the links the call is there to restore (parent and backward links beneath the node, as manual concatenation leaves them) are
				// wiped first in half of the cases; the audit then demands the sound tree back
				bool wiped = (op.c & 1) != 0;
				if (wiped) { std::vector<node *> todo; for (node *c = x->children; c; c = c->next) todo.push_back(c);
					size_t guard = 0; while (!todo.empty() && ++guard < 100000) { node *d = todo.back(); todo.pop_back(); d->parent = 0; d->prev = 0; for (node *c = d->children; c; c = c->next) todo.push_back(c); } }
				{ Sut s; mpt_gnode_relink(x); }
				log.ev("RELINK %d%s", idof(x), wiped ? " (links beneath it wiped)" : "");
				outcome = 1;
				break;
			}
			case OP_CLEAR: {
				if (!x) break;
				size_t g = 0; for (node *c = x->children; c && ++g < 5000; c = c->next) { size_t g2 = 0; forget(c, g2); }
				{ Sut s; mpt_node_clear(x); }
				log.ev("CLEAR %d", idof(x));
				if (x->children) fail("lost-node", "clear left children attached");
				outcome = 1;
				break;
			}
			case OP_DESTROY: {
				if (!x) break;
				bool was_linked = linked(x);
				int id = idof(x);
				std::map<node *, Info> saved = pop;
				if (!was_linked) { size_t g = 0; forget(x, g); }
				node *r; { Sut s; r = mpt_node_destroy(x); }
				log.ev("DESTROY %d (%s) -> %s", id, was_linked ? "linked" : "unlinked", r ? "refused" : "done");
				if (was_linked && !r) { pop = saved; size_t g = 0; forget(x, g); fail("destroyed-linked", "a node that is still linked into a list was destroyed"); }
				if (!was_linked && r) { pop = saved; fail("refused-valid", "destroy of an unlinked node refused"); }
				outcome = r ? 0 : 1;
				break;
			}
			case OP_QUERY: {
				if (!x) break;
				// read-only searches against a plain walk
				const char *nm = NAMES[(op.c & 0xff) % NNAMES]; size_t nl = strlen(nm);
				node *head = siblings(x)[0];
				node *got; { Sut s; got = mpt_node_next(head, nm); }
				node *want = 0; for (node *q = head; q; q = q->next) { const char *qn = mpt_node_ident(q); if (std::string(qn ? qn : "") == nm && q->ident._len == nl + 1) { want = q; break; } }
				if (!nl) want = got; // empty names have two representations (cleared, empty text): not compared
				log.ev("QUERY next('%.8s') from %d -> %d", nm, idof(head), idof(got));
				if (got != want) fail("wrong-search", "first node named '%s' in the list of %d is %d, search returned %d", nm, idof(head), idof(want), idof(got));
				node *last; { Sut s; last = mpt_gnode_pos(head, 0); }
				if (last != siblings(x).back()) fail("wrong-search", "last node of the list of %d is %d, search returned %d", idof(head), idof(siblings(x).back()), idof(last));
				outcome = got ? 1 : 0;
				break;
			}
			}
			if (fired) st.hit("fault:allocfail");
			{ st.state(600 + op.kind, (pop.size() > 7 ? 7 : pop.size()) * 16 + (depth > 3 ? 3 : depth) * 4 + (fired ? 2 : 0) + (byname ? 1 : 0), outcome); }
			audit(OPS[op.kind]);
			check_order(OPS[op.kind], before, moved);
		}
		// teardown: unlink roots and destroy everything; every node and value is released exactly once
		size_t guard = 0;
		while (!pop.empty() && ++guard < 200) {
			node *n = pop.begin()->first;
			while (n->parent) n = n->parent;
			while (n->prev) n = n->prev;
			{ Sut s; mpt_node_unlink(n); }
			size_t g = 0; forget(n, g);
			node *r; { Sut s; r = mpt_node_destroy(n); }
			if (r) fail("refused-valid", "destroy of an unlinked root refused at teardown");
			check_pending();
		}
		if (!g_meta_live.empty()) fail("value-leak", "%zu value object(s) alive after all nodes were destroyed", g_meta_live.size());
		if (ledger_live()) fail("leak", "%zu block(s) allocated after all nodes were destroyed: %s", ledger_live(), ledger_describe().c_str());
	}
};

namespace sim { World *the_world() { static TreeWorld w; return &w; } }
