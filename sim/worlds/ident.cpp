// world `ident` (C16): histories of set / copy / clear / compare on identifiers of
// different storage sizes, across the inline/allocated boundary, with the
// allocator failing at the transitions.  Storage is an exact-size heap block.
#include "worlds/common.hpp"

using namespace sim;
using namespace mpt;

enum { OP_SET, OP_SETRAW, OP_COPY, OP_CLEAR, OP_COMPARE, OP_INEQUAL, OP_SETSTR, OP_NODE, OP_CXX };
static const char *const OPS[] = {"SET", "SET_RAW", "COPY", "CLEAR", "COMPARE", "INEQUAL", "SET_STRLEN", "NODE", "CXX_COPY", 0};
enum { FL_NONE, FL_ALLOC };
static const char *const FAULTS[] = {"none", "allocfail", 0};

struct IdentWorld : World {
	IdentWorld() { registry_global = true; }
	const char *name() const override { return "ident"; }
	const char *const *opnames() const override { return OPS; }
	const char *const *faultnames() const override { return FAULTS; }
	const char *const *shrinkable_cfg() const override { static const char *const k[] = {"s0", "s1", "s2", 0}; return k; }
	const char *components_json() const override {
		return "{\"real\":[\"mpt_identifier_init/new/set/copy/compare/inequal/data\",\"mpt_identifier_traits (init/fini)\",\"mpt_node_new name storage + mpt_node_destroy\",\"C++ identifier (set_name, name, equal, copy, assignment)\"],"
		       "\"stub\":[\"identifier storage = exact-size heap blocks of 16..256 bytes\",\"allocator (ledger + n-th allocation fails)\",\"optional-byte-string reference model\"]}";
	}
	struct Model { int kind = 0; Bytes b; }; // 0 cleared, 1 text, 2 raw zeros
	void gen(Rng &r, Plan &p, int tier) override {
		static const int sizes[] = {16, 16, 32, 64, 128, 256, 0 /* mpt_identifier_new */};
		p.set("s0", r.pick(sizes)); p.set("s1", r.pick(sizes)); p.set("s2", r.pick(sizes));
		Bytes pool; size_t n = (size_t) (r.chance(1, 6) ? r.range(65000, 66000) : r.range(300, 700));
		for (size_t i = 0; i < n; ++i) pool.push_back((uint8_t) (r.chance(1, 40) ? 0 : r.range(1, 255)));
		p.blobs.push_back(pool);
		int nops = (int) r.range(1, tier ? 80 : 40);
		bool allocf = r.chance(1, 2);
		for (int i = 0; i < nops; ++i) {
			Op op; op.kind = (int) r.below(9);
			op.a = r.below(3) | (r.below(3) << 8);
			// length selector relative to the inline capacity of the target: b = selector, c = raw value
			op.b = r.below(8); op.c = r.below(70000);
			if (allocf && r.chance(1, 3)) { op.fault = FL_ALLOC; op.fa = r.chance(1, 3) ? 2 : 1; }      // (the second allocation of an op: e.g. the name behind a node that was allocated fine)
			p.ops.push_back(op);
		}
	}
	void exec(const Plan &p, Log &log, Stats &st) override {
		const Bytes &pool = p.blob(0);
		Block store[3]; identifier *id[3]; size_t ssize[3]; bool lib_alloc[3]; Model M[3];
		for (int i = 0; i < 3; ++i) {
			char k[3] = {'s', (char) ('0' + i), 0};
			size_t s = (size_t) p.get(k, 16);
			if (s != 0 && s != 16 && s != 32 && s != 64 && s != 128 && s != 256) s = 16;
			lib_alloc[i] = s == 0;
			if (s) { store[i].alloc(s, 0); memset(store[i].p, 0xEE, s); id[i] = reinterpret_cast<identifier *>(store[i].p); { Sut su; mpt_identifier_init(id[i], s); } ssize[i] = s; }
			else { size_t want = 20 + (size_t) (p.seed % 60); { Sut su; id[i] = mpt_identifier_new(want); } if (!id[i]) fail("setup", "identifier_new failed"); ssize[i] = id[i]->_max + 4; }
			if (id[i]->_len != 0) fail("state", "fresh identifier not empty");
			log.ev("ident %d storage=%zu inline capacity=%u%s", i, ssize[i], id[i]->_max, lib_alloc[i] ? " (mpt_identifier_new)" : "");
		}
		auto externals = [&]() { size_t n = 0; for (int i = 0; i < 3; ++i) { if (lib_alloc[i]) ++n; if (id[i]->_len > id[i]->_max) ++n; } return n; };
		auto verify = [&](const char *after) {
			for (int i = 0; i < 3; ++i) {
				const identifier *d = id[i]; const Model &m = M[i];
				size_t want_len = m.kind == 0 ? 0 : m.kind == 1 ? m.b.size() + 1 : m.b.size();
				if (d->_len != want_len) fail("wrong-length", "after %s: identifier %d has length field %u, want %zu (kind %d)", after, i, d->_len, want_len, m.kind);
				const uint8_t *data; { Sut su; data = (const uint8_t *) mpt_identifier_data(d); }
				if (want_len && !data) fail("wrong-content", "after %s: identifier %d has no data", after, i);
				for (size_t k = 0; k < m.b.size(); ++k) if (data[k] != m.b[k]) fail("wrong-content", "after %s: identifier %d byte %zu of %zu is %02x, want %02x", after, i, k, m.b.size(), data[k], m.b[k]);
				if (m.kind == 1 && data[m.b.size()] != 0) fail("wrong-content", "after %s: identifier %d text not terminated", after, i);
				if ((m.kind == 1) != (d->_charset == identifier::UTF8)) fail("wrong-content", "after %s: identifier %d charset %u for kind %d", after, i, d->_charset, m.kind);
			}
			if (ledger_live() != externals())
				fail("leak", "after %s: %zu block(s) allocated, %zu identifiers hold external content: %s", after, ledger_live(), externals(), ledger_describe().c_str());
		};
		auto pick_len = [&](const Op &op, int t) -> size_t {
			size_t cap = id[t]->_max;
			switch (op.b & 7) {
			case 0: return 0; case 1: return 1; case 2: return cap > 1 ? cap - 2 : 0; case 3: return cap - 1; case 4: return cap; case 5: return cap + 1;
			case 6: return (size_t) op.c % 300; default: return (size_t) op.c; // up to 70000: beyond the 65535 limit
			}
		};
		verify("setup");
		for (const Op &op : p.ops) {
			int t = (int) (op.a & 0xff) % 3, s = (int) ((op.a >> 8) & 0xff) % 3;
			uint64_t failn = op.fault == FL_ALLOC ? (uint64_t) std::max<int64_t>(op.fa, 1) : 0; uint64_t fired = 0;
			bool was_ext = id[t]->_len > id[t]->_max;
			st.hit(std::string("op:") + OPS[op.kind]);
			int outcome = 0; bool now_ext;
			switch (op.kind) {
			case OP_SET: case OP_SETSTR: if (M[t].kind == 1 && !M[t].b.empty() && (op.c % 5) == 2) {
				// the new name is a tail of the identifier's own content (the pointer handed in lies inside the identifier or its allocation)
				size_t k = (size_t) (op.c / 5) % M[t].b.size(); Bytes name(M[t].b.begin() + k, M[t].b.end());
				bool byStrlen = op.kind == OP_SETSTR && std::find(name.begin(), name.end(), 0) == name.end();
				const char *own; { Sut su; own = (const char *) mpt_identifier_data(id[t]); }
				void *r; { Sut su(failn); r = mpt_identifier_set(id[t], own + k, byStrlen ? -1 : (int) name.size()); fired = g.fired; }
				log.ev("%s %d from its own content at %zu of %zu%s -> %s", OPS[op.kind], t, k, M[t].b.size(), fired ? " allocfail" : "", r ? "ok" : "null");
				if (!r) { if (!fired) fail("refused-valid", "set from the identifier's own content (%zu bytes at %zu) refused without allocation fault", name.size(), k); }
				else { M[t].b = name; outcome = 1; }
				st.hit("probe:set_from_own_content");
				break;
			} else {
				size_t len = pick_len(op, t); if (len > pool.size()) len = pool.size();
				size_t off = pool.size() - len ? (size_t) op.c % (pool.size() - len + 1) : 0;
				Bytes name(pool.begin() + off, pool.begin() + off + len);
				bool byStrlen = op.kind == OP_SETSTR;
				if (byStrlen) for (auto &b : name) if (!b) b = 'z';
				Block nb(len + 1, 0); if (len) memcpy(nb.p, name.data(), len); nb.p[len] = 0;
				void *r; { Sut su(failn); r = mpt_identifier_set(id[t], (const char *) nb.p, byStrlen ? -1 : (int) len); fired = g.fired; }
				log.ev("%s %d len=%zu%s -> %s", OPS[op.kind], t, len, fired ? " allocfail" : "", r ? "ok" : "null");
				if (len + 1 > 65535) { if (r) fail("accepted-invalid", "name of %zu bytes accepted (limit 65535 incl. terminator)", len); }
				else if (!r) { if (!fired) fail("refused-valid", "set of %zu byte name refused without allocation fault", len); }
				else { M[t].kind = 1; M[t].b = name; outcome = 1; }
				break;
			}
			case OP_SETRAW: {
				size_t len = pick_len(op, t);
				void *r; { Sut su(failn); r = mpt_identifier_set(id[t], 0, (int) len); fired = g.fired; }
				log.ev("SET_RAW %d len=%zu%s -> %s", t, len, fired ? " allocfail" : "", r ? "ok" : "null");
				if (len > 65535) { if (r) fail("accepted-invalid", "raw content of %zu bytes accepted", len); }
				else if (!r) { if (!fired) fail("refused-valid", "raw set of %zu bytes refused without allocation fault", len); }
				else { M[t].kind = len ? 2 : 0; M[t].b.assign(len, 0); outcome = 1; }
				break;
			}
			case OP_COPY: {
				bool nul = (op.c % 9) == 0;
				void *r; { Sut su(failn); r = mpt_identifier_copy(id[t], nul ? 0 : id[s]); fired = g.fired; }
				log.ev("COPY %d <- %s%s -> %s", t, nul ? "null" : (s == 0 ? "0" : s == 1 ? "1" : "2"), fired ? " allocfail" : "", r ? "ok" : "null");
				if (!r) { if (!fired) fail("refused-valid", "copy refused without allocation fault"); }
				else { M[t] = nul ? Model() : M[s]; outcome = 1; }
				break;
			}
			case OP_CLEAR: {
				{ Sut su; mpt_identifier_set(id[t], 0, 0); }
				log.ev("CLEAR %d", t);
				M[t] = Model(); outcome = 1;
				break;
			}
			case OP_COMPARE: {
				// compare against own content, a prefix, or a changed byte
				if (M[t].kind == 2 && (op.c & 4)) {
					// raw content (n zero bytes, set with a null pointer) is compared the way it was set: equal for n, different for any other length
					size_t n = M[t].b.size(); int v = (int) (op.c % 3); size_t ask = v == 0 ? n : v == 1 ? n - 1 : n + 1;
					int rc; { Sut su; rc = mpt_identifier_compare(id[t], 0, (int) ask); }
					log.ev("COMPARE %d raw %zu against %zu zero bytes -> %d", t, n, ask, rc);
					if ((rc == 0) != (ask == n)) fail("wrong-compare", "raw content of %zu bytes compared with %zu raw bytes reports %d", n, ask, rc);
					st.hit("probe:raw_compare"); outcome = rc == 0; break;
				}
				Bytes name = M[t].b; int variant = (int) (op.c % 4);
				if (variant == 1 && !name.empty()) name.pop_back();
				if (variant == 2 && !name.empty()) name[(size_t) op.c % name.size()] ^= 0x20;
				if (variant == 3) name.push_back('x');
				Block nb(name.size() + 1, 0); if (!name.empty()) memcpy(nb.p, name.data(), name.size()); nb.p[name.size()] = 0;
				int rc; { Sut su; rc = mpt_identifier_compare(id[t], (const char *) nb.p, (int) name.size()); }
				bool equal = M[t].kind == 1 && M[t].b == name;
				log.ev("COMPARE %d variant=%d -> %d (model %s)", t, variant, rc, equal ? "equal" : "different");
				if ((rc == 0) != equal) fail("wrong-compare", "compare reports %d, contents are %s (kind %d, %zu vs %zu bytes)", rc, equal ? "equal" : "different", M[t].kind, M[t].b.size(), name.size());
				outcome = rc == 0;
				break;
			}
			case OP_INEQUAL: {
				int rc; { Sut su; rc = mpt_identifier_inequal(id[t], id[s]); }
				bool equal = M[t].kind == M[s].kind && M[t].b == M[s].b;
				log.ev("INEQUAL %d %d -> %d (model %s)", t, s, rc, equal ? "equal" : "different");
				if ((rc == 0) != equal) fail("wrong-compare", "inequal reports %d, contents are %s", rc, equal ? "equal" : "different");
				outcome = rc == 0;
				break;
			}
			case OP_CXX: {
				// the C++ class: a plain identifier (or one with extra inline room) copy-constructed from identifier s of whatever storage size,
				// living in a block of exactly its own size; assigned from t, renamed, destroyed
				static const size_t sizes[] = {sizeof(identifier), sizeof(identifier), 24, 32, 64};
				size_t total = sizes[(size_t) op.c % 5];
				Block blk(total, 0); memset(blk.p, 0xEE, total);
				identifier *c;
				if (op.c & 8) { { Sut su(failn); c = new (blk.p) identifier(total); fired = g.fired; } { Sut su; *c = *id[s]; } }
				else { if (total != sizeof(identifier)) { total = sizeof(identifier); blk.release(); blk.alloc(total, 0); memset(blk.p, 0xEE, total); } Sut su(failn); c = new (blk.p) identifier(*id[s]); fired = g.fired; }
				auto same = [&](const identifier *x, const Model &m, const char *what) {
					size_t want_len = m.kind == 0 ? 0 : m.kind == 1 ? m.b.size() + 1 : m.b.size();
					if (x->_len != want_len) fail("wrong-length", "C++ identifier %s: length field %u, want %zu", what, x->_len, want_len);
					const uint8_t *d; { Sut su; d = (const uint8_t *) mpt_identifier_data(x); }
					for (size_t k = 0; k < m.b.size(); ++k) if (d[k] != m.b[k]) fail("wrong-content", "C++ identifier %s: byte %zu of %zu differs", what, k, m.b.size());
				};
				if (!fired) same(c, M[s], "copy-constructed");
				else if (c->_len) same(c, M[s], "copy-constructed under allocation failure");       // empty or complete, nothing in between
				if (c->_max + 4u > total) fail("state", "C++ identifier in %zu bytes of storage claims an inline capacity of %u", total, c->_max);
				{ Sut su; *c = *id[t]; }
				same(c, M[t], "assigned");
				if (M[t].kind == 1) { bool eq; Block nb(M[t].b.size() + 1, 0); if (!M[t].b.empty()) memcpy(nb.p, M[t].b.data(), M[t].b.size()); nb.p[M[t].b.size()] = 0; { Sut su; eq = c->equal((const char *) nb.p, (int) M[t].b.size()); } if (!eq) fail("wrong-compare", "C++ identifier does not equal the name it was assigned"); }
				{ size_t len = pick_len(op, t) % 300; if (len > pool.size()) len = pool.size(); Block nb(len + 1, 0); if (len) memcpy(nb.p, pool.data(), len); nb.p[len] = 0; for (size_t k = 0; k < len; ++k) if (!nb.p[k]) nb.p[k] = 'q';
				  bool ok; { Sut su; ok = c->set_name((const char *) nb.p, (int) len); } if (!ok) fail("refused-valid", "C++ set_name of %zu bytes refused", len);
				  const char *nm; { Sut su; nm = c->name(); } if (len && (!nm || memcmp(nm, nb.p, len) || nm[len])) fail("wrong-content", "C++ identifier name of %zu bytes reads back differently (storage %zu)", len, total); }
				{ Sut su; c->~identifier(); }
				if (op.c & 16) {
					// item<T>: an identifier with eight more inline bytes behind it. Names around both capacities go through copy construction,
					// renaming of the copy and copy assignment into a third item: each must read exactly what it was given last
					size_t la = (size_t) (op.c >> 5) % 26, lb = (size_t) (op.c >> 10) % 26;
					std::string na(la, 'A'), nbs(lb, 'B'); for (size_t k = 0; k < la; ++k) na[k] = (char) ('A' + k % 26); for (size_t k = 0; k < lb; ++k) nbs[k] = (char) ('a' + k % 26);
					item<metatype> *ia, *ib, *ic; bool ok1, ok2;
					{ Sut su; ia = new item<metatype>(); ok1 = ia->set_name(na.c_str(), (int) la); }
					{ Sut su; ib = new item<metatype>(*ia); }
					auto nm = [&](item<metatype> *it) -> std::string { const char *x; { Sut su; x = it->name(); } return x ? x : ""; };
					if (!ok1 || nm(ia) != na) fail("wrong-content", "item<T> named with %zu characters reads '%s'", la, nm(ia).c_str());
					if (nm(ib) != na) fail("wrong-content", "copy-constructed item<T> reads '%s', its source is named with %zu characters", nm(ib).c_str(), la);
					{ Sut su; ok2 = ib->set_name(nbs.c_str(), (int) lb); }
					{ Sut su; ic = new item<metatype>(); *ic = *ib; }
					if (!ok2 || nm(ib) != nbs) fail("wrong-content", "renamed item<T> copy (%zu characters) reads '%s'", lb, nm(ib).c_str());
					if (nm(ic) != nbs) fail("wrong-content", "item<T> assigned from an item named with %zu characters (whose own source had %zu) reads '%s'", lb, la, nm(ic).c_str());
					if (nm(ia) != na) fail("source-changed", "the source item<T> changed while its copy was renamed");
					{ Sut su; delete ic; delete ib; delete ia; }
					st.hit("probe:cxx_item_copy_assign");
				}
				log.ev("CXX_COPY from %d (storage %zu) into %zu bytes%s, assign from %d", s, ssize[s], total, fired ? " allocfail" : "", t);
				st.hit(ssize[s] > total ? "probe:cxx_copy_from_larger_storage" : "probe:cxx_copy_same_or_smaller");
				outcome = 1;
				break;
			}
			case OP_NODE: {
				if (op.c & 1) {
					// the C++ twin: node::create(name) picks plain or extended node storage by the name length; delete releases name and node
					size_t L = pick_len(op, t) % 400; if (L > pool.size()) L = pool.size();
					Block nb(L + 1, 0); if (L) memcpy(nb.p, pool.data(), L); nb.p[L] = 0; for (size_t k = 0; k < L; ++k) if (!nb.p[k]) nb.p[k] = 'q';
					node *n; { Sut su(failn); n = node::create((const char *) nb.p, (op.c & 2) ? -1 : (int) L); fired = g.fired; }
					if (!n) { if (!fired) fail("refused-valid", "node::create with a name of %zu bytes failed", L); break; }
					const char *got; { Sut su; got = mpt_node_ident(n); }
					// (a node that is handed out carries the name it was created with - also when an allocation failed on the way: then no node, or the whole name)
					if (L && (!got || memcmp(got, nb.p, L) || got[L])) fail("wrong-content", "C++ node created with a name of %zu bytes%s reads it back differently (%s)", L, fired ? " under an allocation failure" : "", got ? "other content" : "no name");
					size_t L2 = (size_t) (op.c / 7) % 400; if (L2 > pool.size()) L2 = pool.size();
					Block n2(L2 + 1, 0); if (L2) memcpy(n2.p, pool.data() + (pool.size() - L2), L2); n2.p[L2] = 0; for (size_t k = 0; k < L2; ++k) if (!n2.p[k]) n2.p[k] = 'r';
					bool ok; { Sut su; ok = n->ident.set_name((const char *) n2.p, (int) L2); }
					if (!ok) fail("refused-valid", "renaming a C++ node to %zu bytes refused", L2);
					{ Sut su; got = mpt_node_ident(n); }
					if (L2 && (!got || memcmp(got, n2.p, L2) || got[L2])) fail("wrong-content", "C++ node renamed to %zu bytes reads back differently (created for %zu)", L2, L);
					{ Sut su; delete n; }
					log.ev("NODE(C++) names %zu,%zu%s", L, L2, fired ? " allocfail" : ""); st.hit("probe:cxx_node_create");
					outcome = 1; break;
				}
				if (op.c & 4) {
					// lookup by name in a sibling list (mpt_node_locate): five nodes named with lengths around the pointer-sized and the inline
					// boundaries; a key finds exactly the nodes whose name equals it, counted from the start node in the asked direction
					static const size_t lens[] = {1, 2, 3, 4, 5, 7, 8, 11, 12, 13, 30};
					node *nd[5]; std::string nm[5]; bool bad = false;
					for (int k = 0; k < 5; ++k) {
						size_t L = lens[(size_t) (op.c >> (3 + 2 * k)) % 11]; nm[k].assign(L, (char) ('a' + (op.c >> k) % 2));   // few distinct names: repeats are wanted
						{ Sut su; nd[k] = mpt_node_new(k & 1 ? 0 : L + 1); } if (!nd[k]) { bad = true; for (int j = 0; j < k; ++j) { Sut su; mpt_node_destroy(nd[j]); } break; }
						void *r; { Sut su; r = mpt_identifier_set(&nd[k]->ident, nm[k].c_str(), (int) L); } if (!r) fail("refused-valid", "node name of %zu bytes refused", L);
					}
					if (bad) break;
					for (int k = 0; k < 5; ++k) { nd[k]->prev = k ? nd[k - 1] : 0; nd[k]->next = k < 4 ? nd[k + 1] : 0; }
					auto expect = [&](int start, int pos, const std::string *key) -> int {
						auto eq = [&](int i) { return key && nm[i] == *key; };
						if (pos > 0) { for (int i = start; i < 5; ++i) if (eq(i) && !--pos) return i; return -1; }
						if (pos == 0) { if (eq(4)) return 4; start = 4; pos = -1; }
						for (int i = start - 1; i >= 0; --i) if (eq(i) && !++pos) return i; return -1;
					};
					auto idx = [&](const node *n) { for (int i = 0; i < 5; ++i) if (nd[i] == n) return i; return n ? 9 : -1; };
					for (int q = 0; q < 12; ++q) {
						uint64_t z = ((uint64_t) op.c + 1) * 0x9e3779b97f4a7c15ull + (uint64_t) q * 0xbf58476d1ce4e5b9ull; z ^= z >> 31;
						int start = (int) (z % 5), pos = (int) ((z >> 8) % 7) - 3, how = (int) ((z >> 16) % 4);
						std::string key = how == 3 ? std::string(lens[(z >> 24) % 11], 'a') : nm[(z >> 24) % 5];
						const node *got; int want;
						if (how == 2) { Sut su; got = mpt_node_locate(nd[start], pos, 0, 0, identifier::UTF8); want = -1; }        // a key of no bytes equals no name
						else if (how == 1) { Block kb(key.size() + 1, 0); memcpy(kb.p, key.c_str(), key.size() + 1); Sut su; got = mpt_node_locate(nd[start], pos, kb.p, key.size() + 1, identifier::UTF8); want = expect(start, pos, &key); }
						else { Block kb(key.size() + 1, 0); memcpy(kb.p, key.c_str(), key.size() + 1); Sut su; got = mpt_node_locate(nd[start], pos, kb.p, key.size(), -1); want = expect(start, pos, &key); }
						if (idx(got) != want) fail("wrong-compare", "lookup (%s key of %zu bytes, position %d from node %d) in names of %zu,%zu,%zu,%zu,%zu bytes finds node %d, equal content is at node %d",
							how == 2 ? "empty" : how == 1 ? "terminated" : "text", how == 2 ? (size_t) 0 : key.size(), pos, start, nm[0].size(), nm[1].size(), nm[2].size(), nm[3].size(), nm[4].size(), idx(got), want);
					}
					for (int k = 0; k < 5; ++k) { nd[k]->prev = nd[k]->next = 0; Sut su; mpt_node_destroy(nd[k]); }
					log.ev("NODE locate in names %zu,%zu,%zu,%zu,%zu", nm[0].size(), nm[1].size(), nm[2].size(), nm[3].size(), nm[4].size()); st.hit("probe:node_locate");
					outcome = 1; break;
				}
				// node name storage: a node sized for a name of some length, named, renamed across its inline limit, destroyed
				size_t want = (size_t) op.c % 300, len1 = pick_len(op, t) % 400, len2 = (size_t) (op.c / 7) % 400;
				if (len1 > pool.size()) len1 = pool.size(); if (len2 > pool.size()) len2 = pool.size();
				node *n; { Sut su(failn); n = mpt_node_new(want); fired = g.fired; }
				if (!n) { if (!fired) fail("refused-valid", "node_new(%zu) failed", want); break; }
				for (size_t L : {len1, len2}) {
					Block nb(L + 1, 0); if (L) memcpy(nb.p, pool.data(), L); nb.p[L] = 0;
					for (size_t k = 0; k < L; ++k) if (!nb.p[k]) nb.p[k] = 'q';
					void *r; { Sut su; r = mpt_identifier_set(&n->ident, (const char *) nb.p, (int) L); }
					if (!r) fail("refused-valid", "node name of %zu bytes refused", L);
					const char *got; { Sut su; got = mpt_node_ident(n); }
					if (L && (!got || memcmp(got, nb.p, L) || got[L])) fail("wrong-content", "node name of %zu bytes reads back differently (node sized for %zu)", L, want);
				}
				{ Sut su; mpt_node_destroy(n); }
				log.ev("NODE sized=%zu names %zu,%zu", want, len1, len2);
				outcome = 1;
				break;
			}
			}
			if (fired) st.hit("fault:allocfail");
			now_ext = id[t]->_len > id[t]->_max;
			if (was_ext != now_ext) st.hit(now_ext ? "probe:inline_to_allocated" : "probe:allocated_to_inline");
			st.state(400 + op.kind, (was_ext ? 2 : 0) + (now_ext ? 1 : 0) + 4 * (fired ? 1 : 0) + 8 * (ssize[t] / 32 > 7 ? 7 : ssize[t] / 32), outcome);
			verify(OPS[op.kind]);
		}
		for (int i = 0; i < 3; ++i) { { Sut su; mpt_identifier_set(id[i], 0, 0); } if (lib_alloc[i]) { Sut su; free(id[i]); } }
		if (ledger_live()) fail("leak", "%zu block(s) allocated after all identifiers were cleared: %s", ledger_live(), ledger_describe().c_str());
	}
};

namespace sim { World *the_world() { static IdentWorld w; return &w; } }
