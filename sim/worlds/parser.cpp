// world `parser` (C08): a configuration text reaches the real parsers through the
// reader seam; the simulator ends the stream (EOF) or fails the read at EVERY
// offset, and fails EVERY allocation the fault-free execution performs, one
// fault per parse.  Ledger: leaks; snapshot: atomicity of the target tree.
#include "worlds/common.hpp"

using namespace sim;
using namespace mpt;

enum { OP_NONE };
static const char *const OPS[] = {"NONE", 0};
static const char *const FAULTS[] = {"none", 0};

struct Reader {
	const uint8_t *p = 0; size_t n = 0, pos = 0;
	size_t eof_at = (size_t) -1, err_at = (size_t) -1;
	uint64_t calls = 0, cap = 0; bool over = false;
};
static int rd_getc(void *arg) {
	Harness h;
	Reader *r = (Reader *) arg;
	// protocol of the library's own readers (mpt_getchar_stdio/_file): byte value, -2 at end of input, -1 on error
	if (++r->calls > r->cap) { r->over = true; return -2; }
	if (r->pos == r->err_at) return -1;
	if (r->pos >= r->n || r->pos >= r->eof_at) return -2;
	return r->p[r->pos++];
}
struct Snap { int depth; std::string name, value; bool operator==(const Snap &o) const { return depth == o.depth && name == o.name && value == o.value; } };
static void snapshot(const node *n, int depth, std::vector<Snap> &out, size_t &guard) {
	for (; n; n = n->next) {
		if (++guard > 200000) return;
		Snap s; s.depth = depth;
		const char *id = mpt_node_ident(n); if (id) s.name = id;
		size_t len = 0; const char *d = mpt_node_data(n, &len); if (d) s.value.assign(d, len);
		out.push_back(s);
		snapshot(n->children, depth + 1, out, guard);
	}
}
struct Nest { int depth = 0; bool bad = false; uint64_t events = 0, sections = 0, options = 0; std::vector<Snap> tree; };
static int nest_save(void *ctx, const path *pt, const value *val, int last, int curr) {
	Harness h;
	Nest *n = (Nest *) ctx; ++n->events;
	int k = curr & 3;
	// the tree these events describe: a named entry per section start and option at the depth of the open sections, an unnamed one per data-only element
	if ((curr & 1) || (curr & 7) == 4) {
		Snap sn; sn.depth = n->depth;
		if (curr & 1) { path cp = *pt; int l = mpt_path_last(&cp); if (l > 0) sn.name.assign(cp.base + cp.off, (size_t) l); }
		if (val && (curr & 4)) { const struct iovec *v = (const struct iovec *) val->data(); if (v && v->iov_base) sn.value.assign((const char *) v->iov_base, v->iov_len); }
		n->tree.push_back(sn);
	}
	if (k == 1) { ++n->depth; ++n->sections; }
	else if (k == 2) { if (n->depth <= 0) n->bad = true; else --n->depth; }
	else if (k == 3) ++n->options;
	return 0;
}

struct ParserWorld : World {
	const char *name() const override { return "parser"; }
	const char *const *opnames() const override { return OPS; }
	const char *const *faultnames() const override { return FAULTS; }
	const char *const *shrinkable_cfg() const override { static const char *const k[] = {"prepop", "sect", "opt", "only_kind", "only_at", 0}; return k; }
	const char *components_json() const override {
		return "{\"real\":[\"mpt_parse_node\",\"mpt_parse_config\",\"mpt_parse_format\",\"mpt_parse_next_fcn\",\"mpt_parse_format_pre/enc/sep\",\"mpt_parse_option\",\"mpt_parse_data\","
		       "\"mpt_parse_getchar/nextvis/endline/ncheck\",\"mpt_path_addchar/add/del/invalidate/last/fini\",\"mpt_node_append\",\"mpt_meta_new\",\"mpt_node_new/move/clear/destroy\",\"mpt_identifier_set\"],"
		       "\"stub\":[\"reader (getc over the plan's bytes; EOF / read error at a chosen offset; call counter)\",\"allocator (ledger; n-th allocation of the parse fails)\"]}";
	}
	ParserWorld() {
		registry_global = true;      // the type tables are made on first use and live as long as the process; which table a run touches first depends on the implementation chosen (cimpl)
		// process-global tables (type registry etc.) are created lazily: do it once, outside any run
		Plan p; p.blobs.push_back(Bytes{'a', '=', '1', '\n', 's', '{', 'b', '=', '2', '}', '\n'}); p.blobs.push_back(Bytes{'{', '*', '}', ' ', '=', ' ', '#'});
		node root; Reader rd; rd.p = p.blobs[0].data(); rd.n = p.blobs[0].size(); rd.cap = 1000;
		parser_context ctx; ctx.src.getc = rd_getc; ctx.src.arg = &rd;
		mpt_parse_node(&root, &ctx, "{*} = #");
		mpt_node_clear(&root);
		mpt_type_traits('c'); mpt_type_traits(MPT_type_toVector('c'));
	}

	// ---------------------------------------------------------------- generation
	static void gen_name(Rng &r, Bytes &t, bool huge) {
		size_t n = huge ? (size_t) (r.chance(1, 2) ? (r.chance(1, 2) ? r.range(255, 257) : r.range(250, 260)) : r.chance(1, 2) ? r.range(65530, 65540) : r.range(300, 70000)) : (size_t) r.range(0, 9);
		static const char cs[] = "abcXYZ019_-. ";
		for (size_t i = 0; i < n; ++i) t.push_back((uint8_t) (huge ? 'a' + i % 26 : cs[r.below(sizeof cs - 1)]));
	}
	void gen(Rng &r, Plan &p, int tier) override {
		static const char *fmts[] = {"{*} =;!#", "{*} =;!# `", "[*] = ", "[*] = !", "[ ] = #", "[x] = #", "{x} =;#", "<x>:=,#", "{_} =;#", "{*}", "(*)<:>% \"", 0};
		const char *f = fmts[r.below(11)];
		if (r.chance(1, 25)) { static const char *shorts[] = {"", "{", "[", "{*", "[x", "{ "}; f = shorts[r.below(6)]; }
		Bytes fb(f, f + strlen(f));
		if (r.chance(1, 10)) { for (auto &b : fb) if (r.chance(1, 6)) b = (uint8_t) r.range(33, 126); }
		uint8_t ss = fb.size() > 0 ? fb[0] : '{', se = fb.size() > 2 ? fb[2] : '}', as = fb.size() > 4 ? fb[4] : '=', oe = fb.size() > 5 ? fb[5] : 0, cm = fb.size() > 6 ? fb[6] : '#';
		if (isspace(oe)) oe = 0;
		bool huge = r.chance(1, tier ? 12 : 25);
		Bytes t;
		int depth = 0, items = (int) r.range(0, 14);
		for (int i = 0; i < items; ++i) {
			unsigned k = (unsigned) r.below(12);
			for (int w = (int) r.below(3); w > 0; --w) t.push_back(r.chance(1, 2) ? ' ' : '\t');
			if (k < 4) { // option
				gen_name(r, t, huge && r.chance(1, 4)); if (r.chance(1, 2)) t.push_back(' ');
				t.push_back(as); if (r.chance(1, 2)) t.push_back(' ');
				if (r.chance(1, 5)) { uint8_t q = r.chance(1, 2) ? '"' : '\''; t.push_back(q); gen_name(r, t, false); if (!r.chance(1, 6)) t.push_back(q); }
				else gen_name(r, t, huge && r.chance(1, 4));
				if (oe && r.chance(2, 3)) t.push_back(oe);
				t.push_back('\n');
			} else if (k < 7) { // section start
				if (ss == '[' || ss == '<') { t.push_back(ss); gen_name(r, t, false); t.push_back(se); t.push_back('\n'); }
				else { gen_name(r, t, huge && r.chance(1, 6)); if (r.chance(1, 2)) t.push_back(' '); t.push_back(ss); if (r.chance(1, 2)) t.push_back('\n'); }
				++depth;
			} else if (k < 9) { // section end
				if (ss == '[' || ss == '<') { t.push_back(ss); t.push_back(se); } else t.push_back(se);
				t.push_back('\n'); --depth;
			} else if (k == 9) { t.push_back(cm); gen_name(r, t, false); t.push_back('\n'); }
			else if (k == 10) t.push_back('\n');
			else gen_name(r, t, false);
		}
		while (depth-- > 0 && r.chance(2, 3)) { t.push_back(se); t.push_back('\n'); }
		// byte-level mutations
		int nm = r.chance(1, 2) ? 0 : (int) r.below(4);
		for (int i = 0; i < nm && !t.empty(); ++i) {
			size_t at = r.below(t.size());
			static const uint8_t sp[] = {'"', '\'', '{', '}', '[', ']', '=', ';', '#', '!', '`', '\\', '\n', ' ', 0x80, 0xff, 0x01, 0x00, '.', '/'};
			switch (r.below(4)) {
			case 0: t[at] = r.pick(sp); break;
			case 1: t.insert(t.begin() + at, r.pick(sp)); break;
			case 2: t.erase(t.begin() + at); break;
			default: t.resize(at); break;
			}
		}
		p.blobs.push_back(t);
		p.blobs.push_back(fb);
		p.set("sect", r.chance(1, 2) ? 0xff : r.below(64));
		p.set("opt", r.chance(1, 2) ? 0xff : r.below(64));
		p.set("prepop", r.chance(1, 2));
		p.set("only_kind", 0); p.set("only_at", 0);
		// rarely: sections nested this deep (the text is made at execution time: name, section start, repeated; the input ends inside them)
		p.set("deep", r.chance(1, tier ? 80 : 200) ? (int64_t) (r.chance(1, 2) ? r.range(500, 3000) : r.range(300000, 400000)) : 0);      // (never a depth near the limit of a default machine stack: such a run would not replay exactly)
		// second text: pre-populates the target so that the merge path runs
		Bytes t2;
		if (p.get("prepop")) { const char *pre = "alpha = 1\nsec {\n beta = 2\n gamma {\n  x = y\n }\n}\n"; t2.assign(pre, pre + strlen(pre)); for (auto &b : t2) { if (b == '{') b = ss ? ss : '{'; if (b == '}') b = se ? se : '}'; if (b == '=') b = as ? as : '='; } }
		p.blobs.push_back(t2);
	}

	// ---------------------------------------------------------------- one parse under one fault
	struct Outcome { int rc; uint64_t reads; uint64_t allocs; bool reader_over; uint64_t fired; size_t line; };
	Outcome parse_once(node &root, const Bytes &text, const std::string &fmt, int sect, int opt, size_t eof_at, size_t err_at, uint64_t alloc_fail) {
		Reader rd; rd.p = text.data(); rd.n = text.size(); rd.eof_at = eof_at; rd.err_at = err_at;
		rd.cap = std::min(text.size(), eof_at) + 16;
		parser_context ctx; ctx.src.getc = rd_getc; ctx.src.arg = &rd;
		ctx.name.sect = (uint16_t) sect; ctx.name.opt = (uint16_t) opt;
		Outcome o;
		// format description in an exact-size heap block: reads behind its terminator are AddressSanitizer reports
		Block fb(fmt.size() + 1, 0); memcpy(fb.p, fmt.c_str(), fmt.size() + 1);
		{ Sut s(alloc_fail); o.rc = mpt_parse_node(&root, &ctx, (const char *) fb.p); o.allocs = g.alloc_count; o.fired = g.fired; }
		o.reads = rd.calls; o.reader_over = rd.over; o.line = ctx.src.line;
		return o;
	}
	void exec(const Plan &p, Log &log, Stats &st) override {
		int64_t deep = std::min<int64_t>(std::max<int64_t>(p.get("deep"), 0), 400000);
		if (deep) {
			// depth is bounded by memory only: building, merging and releasing the tree may not depend on the machine stack
			const Bytes &fb0 = p.blob(1); uint8_t ss = fb0.size() > 0 ? fb0[0] : '{', se = fb0.size() > 2 ? fb0[2] : '}';
			bool bracket = ss == '[' || ss == '<';
			Bytes t; for (int64_t i = 0; i < deep; ++i) { if (bracket) { t.push_back(ss); t.push_back('a'); t.push_back(se); t.push_back('\n'); } else { t.push_back('a'); t.push_back(ss); } }
			bool closed = (deep & 1) != 0; if (closed && !bracket) for (int64_t i = 0; i < deep; ++i) t.push_back(se);
			std::string fmt((const char *) fb0.data(), fb0.size()); for (auto &c : fmt) if (!c) c = ' ';
			node root; Outcome o = parse_once(root, t, fmt, 0xff, 0xff, (size_t) -1, (size_t) -1, 0);
			log.ev("DEEP %lld levels%s -> %d reads=%llu", (long long) deep, closed ? " (closed)" : "", o.rc, (unsigned long long) o.reads);
			if (o.reader_over) fail("reader-loop", "deep nesting: parser called the reader %llu times for %zu characters", (unsigned long long) o.reads, t.size());
			if (o.rc >= 0 && root.children) {
				// the tree exists: copying it and parsing the same text into it once more (which merges level by level) depend on the machine stack no more than building it did
				size_t depth0 = 0; for (const node *n = root.children; n; n = n->children) ++depth0;
				node *cp; { Sut s; cp = mpt_list_clone(root.children); }
				size_t depth = 0; for (const node *n = cp; n; n = n->children) ++depth;
				if (cp) { node tmp; tmp.children = cp; for (node *n = cp; n; n = n->next) n->parent = &tmp; { Sut s; mpt_node_clear(&tmp); } }
				Outcome o2 = parse_once(root, t, fmt, 0xff, 0xff, (size_t) -1, (size_t) -1, 0);
				size_t depth2 = 0; for (const node *n = root.children; n; n = n->children) ++depth2;
				log.ev("DEEP copy reaches %zu levels; second parse into the tree -> %d, %zu levels", depth, o2.rc, depth2);
				if (cp && depth != depth0) fail("clone-differs", "the copy of a tree that is %zu levels deep is %zu levels deep", depth0, depth);
				// (what the merge leaves is not judged: with equal names on one level - all of them here - elements of the old tree are merged into the
				// first element of that name, so the second parse need not reproduce the shape of the first; it has to end and to release what it replaces)
				(void) depth2;
				st.hit("probe:deep_tree_cloned_and_merged");
			}
			{ Sut s; mpt_node_clear(&root); }
			if (ledger_live()) fail("leak", "deep nesting: %zu block(s) stay allocated after the parse (%d) and clearing the tree", ledger_live(), o.rc);
			st.hit("probe:deep_nesting"); st.state(399, o.rc < 0 ? 0 : 1, (uint64_t) (deep > 100000));
			return;
		}
		const Bytes &text = p.blob(0);
		std::string fmt((const char *) p.blob(1).data(), p.blob(1).size());
		for (auto &c : fmt) if (!c) c = ' ';
		const Bytes &pre = p.blob(2);
		int sect = (int) p.get("sect", 0xff) & 0xffff, opt = (int) p.get("opt", 0xff) & 0xffff;
		log.ev("parser fmt='%s' text=%zu bytes sect=%x opt=%x prepop=%zu", fmt.c_str(), text.size(), sect, opt, pre.size());
		st.hit(std::string("style:") + (fmt.size() > 1 ? std::string(1, fmt[1]) : std::string("*")));

		// a fresh target for every parse: optionally pre-populated by a fault-free parse of the second text
		auto make_target = [&](node &root, std::vector<Snap> &snap) {
			if (!pre.empty()) {
				Outcome o = parse_once(root, pre, fmt, 0xff, 0xff, (size_t) -1, (size_t) -1, 0);
				(void) o;
			}
			size_t guard = 0; snap.clear(); snapshot(root.children, 0, snap, guard);
		};
		auto judge = [&](const char *kind, size_t at, node &root, const std::vector<Snap> &before, const Outcome &o, size_t live_before, uint64_t mark, size_t avail) {
			check_pending();
			if (o.reader_over)
				fail("reader-loop", "%s at %zu: parser called the reader %llu times for %zu available characters", kind, at, (unsigned long long) o.reads, avail);
			std::vector<Snap> after; size_t guard = 0; snapshot(root.children, 0, after, guard);
			if (guard > 200000) fail("tree-cycle", "%s at %zu: target tree does not end (cycle?)", kind, at);
			if (o.rc < 0) {
				if (!(after == before)) {
					size_t d = 0; while (d < after.size() && d < before.size() && after[d] == before[d]) ++d;
					fail("not-atomic", "%s at %zu: parse failed (%d) but the target tree changed: %zu entries before, %zu after, first difference at entry %zu", kind, at, o.rc, before.size(), after.size(), d);
				}
				size_t fresh = ledger_live_since(mark);
				if (fresh || ledger_live() != live_before)
					fail("leak", "%s at %zu: parse failed (%d) and left %zu new block(s) allocated (%zu live before, %zu after): %s", kind, at, o.rc, fresh, live_before, ledger_live(), ledger_describe().c_str());
			}
		};
		// fault-free reference execution
		uint64_t base_allocs = 0; int base_rc; std::vector<Snap> base_tree;
		{
			node root; std::vector<Snap> before; make_target(root, before);
			size_t live_before = ledger_live(); uint64_t mark = ledger_mark();
			Outcome o = parse_once(root, text, fmt, sect, opt, (size_t) -1, (size_t) -1, 0);
			base_allocs = o.allocs; base_rc = o.rc;
			log.ev("PARSE fault-free -> %d reads=%llu allocs=%llu line=%zu", o.rc, (unsigned long long) o.reads, (unsigned long long) o.allocs, o.line);
			judge("fault-free parse", 0, root, before, o, live_before, mark, text.size());
			{ size_t guard = 0; snapshot(root.children, 0, base_tree, guard); }
			st.state(300, o.rc < 0 ? 0 : 1, (uint64_t) (fmt.size() > 1 ? fmt[1] : '*') + 256 * (pre.empty() ? 0 : 1));
			st.hit(o.rc < 0 ? "parse:rejected" : "parse:accepted");
			{ Sut s; mpt_node_clear(&root); }
			if (ledger_live()) fail("leak", "after a %s parse and destruction of the result tree %zu block(s) stay allocated: %s", o.rc < 0 ? "failed" : "successful", ledger_live(), ledger_describe().c_str());
		}
		// event nesting on the raw event stream
		{
			Block fb(fmt.size() + 1, 0); memcpy(fb.p, fmt.c_str(), fmt.size() + 1);
			parser_format pf; int type = mpt_parse_format(&pf, (const char *) fb.p);
			input_parser_t next = mpt_parse_next_fcn(type);
			if (next) {
				Reader rd; rd.p = text.data(); rd.n = text.size(); rd.cap = text.size() + 16;
				parser_context ctx; ctx.src.getc = rd_getc; ctx.src.arg = &rd;
				ctx.name.sect = (uint16_t) sect; ctx.name.opt = (uint16_t) opt;
				ctx.prev = parser_context::Section;
				Nest nest; int rc;
				{ Sut s; rc = mpt_parse_config(next, &pf, &ctx, nest_save, &nest); }
				log.ev("EVENTS -> %d events=%llu sections=%llu options=%llu depth=%d", rc, (unsigned long long) nest.events, (unsigned long long) nest.sections, (unsigned long long) nest.options, nest.depth);
				if (rd.over) fail("reader-loop", "event parse called the reader %llu times for %zu characters", (unsigned long long) rd.calls, text.size());
				if (rc >= 0 && nest.bad) fail("bad-nesting", "successful parse emitted a section end without an open section");
				// the tree the library builds from these events (into an empty target) has every entry where the events put it
				if (rc >= 0 && base_rc >= 0 && pre.empty() && !nest.bad) {
					bool same = nest.tree.size() == base_tree.size();
					size_t d = 0; for (; same && d < base_tree.size(); ++d) if (nest.tree[d].depth != base_tree[d].depth || nest.tree[d].name != base_tree[d].name) { same = false; break; }
					if (!same) { if (nest.tree.size() != base_tree.size()) { d = 0; while (d < nest.tree.size() && d < base_tree.size() && nest.tree[d].depth == base_tree[d].depth && nest.tree[d].name == base_tree[d].name) ++d; }
						fail("tree-nesting", "the parsed tree has %zu entries, the events describe %zu; first difference at entry %zu (tree: depth %d '%.12s', events: depth %d '%.12s')", base_tree.size(), nest.tree.size(), d,
						     d < base_tree.size() ? base_tree[d].depth : -1, d < base_tree.size() ? base_tree[d].name.c_str() : "", d < nest.tree.size() ? nest.tree[d].depth : -1, d < nest.tree.size() ? nest.tree[d].name.c_str() : ""); }
					st.hit("probe:tree_matches_events");
				}
				if (ledger_live()) fail("leak", "event parse (%d) left %zu block(s) allocated: %s", rc, ledger_live(), ledger_describe().c_str());
				st.state(301, rc < 0 ? 0 : 1, (uint64_t) std::min<uint64_t>(nest.sections, 3) * 4 + std::min<uint64_t>(nest.options, 3));
				// the caller's own event loop (examples/core/parse.c) over a length-linked path (SepBinary: no separator character, one length byte
				// in front of and behind each element, so no element beyond 255 bytes): as far as it gets, the events are the ones the default path gave,
				// name for name, and the end of every section it announced can be taken off the path again
				{
					Reader rb; rb.p = text.data(); rb.n = text.size(); rb.cap = text.size() + 16;
					parser_context cb; cb.src.getc = rd_getc; cb.src.arg = &rb;
					cb.name.sect = (uint16_t) sect; cb.name.opt = (uint16_t) opt;
					cb.prev = parser_context::Section;
					parser_format pb = pf;
					Nest bn; int rb_rc = 0; uint64_t steps = 0; bool delfail = false;
					path *bp; { Sut s; bp = new path(); } bp->flags = path::SepBinary;
					while (true) {
						{ Sut s; rb_rc = next(&pb, &cb, bp); }
						if (rb_rc <= 0 || ++steps > text.size() + 16) break;
						struct iovec vec; vec.iov_base = (char *) (bp->base + bp->off + bp->len); vec.iov_len = cb.valid;
						value val; val.set(MPT_type_toVector('c'), &vec);
						nest_save(&bn, bp, (rb_rc & 4) ? &val : 0, cb.prev, rb_rc);
						int dr; bool end = (rb_rc & 3) == 2;
						{ Sut s; dr = end ? mpt_path_del(bp) : mpt_path_invalidate(bp); }
						if (dr < 0) { if (end && !bn.bad) delfail = true; break; }
						cb.prev = cb.curr; cb.curr = 0; cb.valid = 0;
					}
					{ Sut s; delete bp; }
					log.ev("EVENTS length-linked path -> %d events=%llu sections=%llu options=%llu depth=%d", rb_rc, (unsigned long long) bn.events, (unsigned long long) bn.sections, (unsigned long long) bn.options, bn.depth);
					if (rb.over || steps > text.size() + 16) fail("reader-loop", "event loop over a length-linked path: %llu reader calls, %llu events for %zu characters", (unsigned long long) rb.calls, (unsigned long long) steps, text.size());
					if (delfail) fail("bad-nesting", "length-linked path: the end of a section the parser had announced (event %llu, %d open) could not be taken off the path", (unsigned long long) bn.events, bn.depth + 1);
					size_t m = std::min(bn.tree.size(), nest.tree.size());
					for (size_t i = 0; i < m; ++i) if (bn.tree[i].depth != nest.tree[i].depth || bn.tree[i].name != nest.tree[i].name)
						fail("path-events", "length-linked path: entry %zu is depth %d name of %zu bytes '%.12s', the same input over a default path gave depth %d name of %zu bytes '%.12s'", i,
						     bn.tree[i].depth, bn.tree[i].name.size(), bn.tree[i].name.c_str(), nest.tree[i].depth, nest.tree[i].name.size(), nest.tree[i].name.c_str());
					if (rb_rc >= 0 && rc >= 0 && bn.tree.size() != nest.tree.size()) fail("path-events", "length-linked path: %zu entries, default path: %zu entries, both parses successful", bn.tree.size(), nest.tree.size());
					if (ledger_live()) fail("leak", "event loop over a length-linked path (%d) left %zu block(s) allocated: %s", rb_rc, ledger_live(), ledger_describe().c_str());
					st.hit(rb_rc < 0 && rc >= 0 ? "probe:binary_path_refused_what_default_took" : "probe:binary_path_events_compared");
				}
			}
		}
		// single-fault enumeration
		int only_kind = (int) p.get("only_kind"); size_t only_at = (size_t) p.get("only_at");
		// work per run is bounded: about 8 million characters through the parser per fault kind (a 250 KB text gets some 70 cut points and
		// 34 allocation indices instead of 300 and 400), so that no run comes near the watchdog on a loaded machine
		const size_t budget = 8u << 20;
		size_t points = std::max<size_t>(8, std::min<size_t>(300, budget / (text.size() / 2 + 1)));
		size_t stride = text.size() > 600 ? std::max<size_t>(text.size() / 300, text.size() / points) : 1;
		size_t max_alloc = std::max<size_t>(8, std::min<size_t>(400, budget / (text.size() + 1)));
		for (int kind = 1; kind <= 3; ++kind) {
			if (only_kind && kind != only_kind) continue;
			size_t limit = kind == 3 ? (size_t) base_allocs : text.size();
			bool single = only_kind && only_at;       // a minimised plan names its fault point
			for (size_t at = single ? only_at : kind == 3 ? 1 : 0; at <= limit; at += (kind == 3 ? 1 : stride)) {
				if (kind == 3 && at > max_alloc && !single) break;
				node root; std::vector<Snap> before; make_target(root, before);
				size_t live_before = ledger_live(); uint64_t mark = ledger_mark();
				Outcome o = parse_once(root, text, fmt, sect, opt, kind == 1 ? at : (size_t) -1, kind == 2 ? at : (size_t) -1, kind == 3 ? at : 0);
				const char *kn = kind == 1 ? "end of input" : kind == 2 ? "read error" : "allocation failure";
				if (kind == 3 && o.fired) st.hit("fault:allocfail"); else if (kind == 1) st.hit("fault:eof"); else if (kind == 2) st.hit("fault:read_error");
				log.ev("PARSE %s at %zu -> %d reads=%llu", kn, at, o.rc, (unsigned long long) o.reads);
				judge(kn, at, root, before, o, live_before, mark, kind == 1 ? at : text.size());
				// a fault the parse met is no end of input: the parse fails, or (an allocation the parser can do without) the result is the fault-free one
				if (kind == 2 && o.rc >= 0 && at < text.size() && o.reads > at) {
					st.hit("probe:read_error_reported_as_success");
					fail("error-swallowed", "read error at %zu of %zu characters: the parse reports success (%d) on the part of the text it got", at, text.size(), o.rc);
				}
				if (kind == 3 && o.fired && o.rc >= 0) {
					std::vector<Snap> got; size_t guard = 0; snapshot(root.children, 0, got, guard);
					if (base_rc < 0 || !(got == base_tree)) { size_t d = 0; while (d < got.size() && d < base_tree.size() && got[d] == base_tree[d]) ++d;
						fail("error-swallowed", "allocation failure %zu: the parse reports success (%d) but its result (%zu entries) differs from the fault-free one (%d, %zu entries) at entry %zu", at, o.rc, got.size(), base_rc, base_tree.size(), d); }
					st.hit("probe:alloc_failure_survived");
				}
				st.state(302 + kind, o.rc < 0 ? 0 : 1, (uint64_t) (at == 0) + 2 * (at == limit) + 4 * (pre.empty() ? 0 : 1));
				{ Sut s; mpt_node_clear(&root); }
				if (ledger_live()) fail("leak", "%s at %zu: after the parse (%d) and destruction of the tree %zu block(s) stay allocated: %s", kn, at, o.rc, ledger_live(), ledger_describe().c_str());
				if (single) break;
			}
		}
		// the same parser context used for two parses in a row: a parse that failed (input ended early) leaves nothing behind that the next
		// parse on that context trips over - it behaves as on a fresh context
		if (!only_kind && !text.empty()) {
			size_t cut = text.size() / 2;
			Reader rd; parser_context ctx; ctx.name.sect = (uint16_t) sect; ctx.name.opt = (uint16_t) opt; ctx.src.getc = rd_getc; ctx.src.arg = &rd;
			Block fb(fmt.size() + 1, 0); memcpy(fb.p, fmt.c_str(), fmt.size() + 1);
			int r1, r2;
			{ node root; rd = Reader(); rd.p = text.data(); rd.n = text.size(); rd.eof_at = cut; rd.err_at = (size_t) -1; rd.cap = cut + 16;
			  { Sut s; r1 = mpt_parse_node(&root, &ctx, (const char *) fb.p); } { Sut s; mpt_node_clear(&root); } }
			const Bytes &second = pre.empty() ? text : pre;
			{ node root; rd = Reader(); rd.p = second.data(); rd.n = second.size(); rd.eof_at = (size_t) -1; rd.err_at = (size_t) -1; rd.cap = second.size() + 16;
			  { Sut s; r2 = mpt_parse_node(&root, &ctx, (const char *) fb.p); } { Sut s; mpt_node_clear(&root); } }
			int fresh; { node root; Outcome o = parse_once(root, second, fmt, sect, opt, (size_t) -1, (size_t) -1, 0); fresh = o.rc; { Sut s; mpt_node_clear(&root); } }
			log.ev("REUSE context: first parse cut at %zu -> %d, second parse -> %d (fresh context: %d)", cut, r1, r2, fresh);
			if ((r2 < 0) != (fresh < 0)) fail("context-state", "a parse on a context that an earlier, cut-off parse had used ends with %d, on a fresh context with %d", r2, fresh);
			if (ledger_live()) fail("leak", "two parses on one context left %zu block(s) allocated: %s", ledger_live(), ledger_describe().c_str());
			st.hit("probe:context_reused");
		}
		(void) base_rc;
	}
};

namespace sim { World *the_world() { static ParserWorld w; return &w; } }
