// world `config` (C10): history of assignments, removals and queries on the
// process-wide configuration through aliasing holders (the global configuration,
// sub-tree views on prefixes of it) and on a private C++ configuration, judged
// against a path -> value tree map.  Allocations fail inside assignments.
#include "worlds/common.hpp"
#include "collection.h"

using namespace sim;
using namespace mpt;

enum { OP_ASSIGN, OP_REMOVE, OP_GET, OP_WALK, OP_SWEEP, OP_VSELF };
static const char *const OPS[] = {"ASSIGN", "REMOVE", "GET", "WALK", "SWEEP", "VIEW_SELF", 0};
enum { FL_NONE, FL_ALLOC };
static const char *const FAULTS[] = {"none", "allocfail", 0};

typedef std::vector<std::string> PathV;
struct MNode { bool has_value = false; std::string value; std::map<std::string, MNode> kids; std::vector<std::string> order; };

struct ConfigWorld : World {
	const char *name() const override { return "config"; }
	const char *const *opnames() const override { return OPS; }
	const char *const *faultnames() const override { return FAULTS; }
	const char *components_json() const override {
		return "{\"real\":[\"mpt_config_global (top and sub-tree views)\",\"configQuery/Assign/Remove\",\"mpt_config_set/get/getp/query\",\"mpt_node_assign/query\",\"mpt_path_set/next/add/del/last\",\"mpt_meta_set/new\",\"mpt_node_locate\",\"C++ config::root (config_item query/reserve)\",\"C++ path\"],"
		       "\"stub\":[\"allocator (ledger + n-th allocation fails)\",\"path -> value tree map reference model per store\"]}";
	}
	ConfigWorld() {
		registry_global = true;      // the type tables are made on first use and live as long as the process; which table a run touches first depends on the implementation chosen (cimpl)
		// lazily created process-global state (type tables, global config exit handler) comes into being here, outside any run
		mpt_config_set(0, "warm.up", "1", '.', 0); mpt_config_set(0, 0, 0, '.', 0);
		std::string big(300, 'v'); mpt_config_set(0, "warm", big.c_str(), '.', 0); mpt_config_set(0, 0, 0, '.', 0);
		{ config::root r; mpt_config_set(&r, "warm.up", "1", '.', 0); mpt_config_set(&r, "warm.big", big.c_str(), '.', 0); std::string o; query(&r, "warm.up", '.', o); query(&r, "warm", '.', o); query(&r, "warm.big", '.', o); }
		{ mpt_config_set(0, "warm.up", "1", '.', 0); std::string o; query(0, "warm.up", '.', o); mpt_config_set(0, 0, 0, '.', 0); }
	}
	static std::string elem(unsigned k) {
		switch (k % 10) {
		case 0: return "a"; case 1: return "b"; case 2: return "c"; case 3: return "aa"; case 4: return "a"; // repeated element
		case 5: return std::string(255, 'x'); case 6: return std::string(256, 'y');                          // around the 8 bit element-length field
		case 7: return std::string(257, 'z'); case 8: return std::string(300, 'w');                          // beyond it, not a multiple of 256
		default: return "";                                                                                  // empty element
		}
	}
	void gen(Rng &r, Plan &p, int tier) override {
		p.set("sep", r.chance(3, 4) ? '.' : (r.chance(1, 2) ? '/' : ':'));
		p.set("empty", r.chance(1, 4));   // allow empty path elements in this run
		p.set("endc", r.chance(1, 3) ? '=' : 0);      // path end delimiter handed to some assignments and removals (the path text may or may not contain it)
		int nops = (int) r.range(1, tier ? 80 : 40);
		bool allocf = r.chance(1, 3);
		for (int i = 0; i < nops; ++i) {
			Op op; unsigned k = (unsigned) r.below(20);
			op.kind = k < 8 ? OP_ASSIGN : k < 11 ? OP_REMOVE : k < 17 ? OP_GET : k < 19 ? OP_WALK : OP_SWEEP;
			if (k == 10 && r.chance(1, 2)) op.kind = OP_VSELF;      // the element a sub-tree view stands on: its own value, everything beneath it
			// a: holder (0 global, 1 view on "a", 2 view on "a.b", 3 private C++ root) | depth << 8 | three element selectors << 12,16,20
			op.a = r.below(4) | (r.range(1, 3) << 8) | (r.below(10) << 12) | (r.below(10) << 16) | (r.below(10) << 20);
			op.b = r.below(8);      // value length class
			op.c = r.below(100000);
			if (allocf && op.kind == OP_ASSIGN && r.chance(1, 3)) { op.fault = FL_ALLOC; op.fa = r.range(1, 5); }
			p.ops.push_back(op);
		}
	}
	static size_t e_len(const char *base, char sep, size_t avail) { size_t n = 0; while (n < avail && base[n] != sep && base[n]) ++n; return n; }
	static MNode *find(MNode &root, const PathV &pv, bool create) {
		MNode *n = &root;
		for (auto &e : pv) {
			auto it = n->kids.find(e);
			if (it == n->kids.end()) { if (!create) return 0; n->order.push_back(e); n = &n->kids[e]; }
			else n = &it->second;
		}
		return n;
	}
	static void collect(const MNode &n, PathV &cur, std::vector<std::pair<PathV, const MNode *>> &out) {
		for (auto &k : n.order) { auto it = n.kids.find(k); if (it == n.kids.end()) continue; cur.push_back(k); out.emplace_back(cur, &it->second); collect(it->second, cur, out); cur.pop_back(); }
	}
	// query through the public accessor: value as text, or absent
	static bool query(config *conf, const std::string &path, char sep, std::string &out) {
		mpt::path p; p.sep = sep; p.assign = 0;
		Block pb(path.size() + 1, 0); memcpy(pb.p, path.c_str(), path.size() + 1);
		{ Sut s; mpt_path_set(&p, (const char *) pb.p, -1); }
		const char *str = 0; int rc; { Sut s; rc = mpt_config_getp(conf, &p, 's', &str); }
		if (rc >= 0 && str) { out = str; return true; }
		struct iovec vec; vec.iov_base = 0; vec.iov_len = 0;
		{ Sut s; rc = mpt_config_getp(conf, &p, MPT_type_toVector('c'), &vec); }
		if (rc >= 0 && vec.iov_base) { out.assign((const char *) vec.iov_base, vec.iov_len); while (!out.empty() && out.back() == 0) out.pop_back(); return true; }
		if (rc >= 0 && !vec.iov_base) { out.clear(); return true; }
		return false;
	}
	void exec(const Plan &p, Log &log, Stats &st) override {
		const char sep = (char) p.get("sep", '.');
		const bool allow_empty = p.get("empty") != 0;
		const char endc = p.get("endc") == '=' ? '=' : 0;
		// the path text as handed to the C entry points: with an end delimiter configured, it is given for some calls, and some of those carry it (and text behind it)
		auto path_text = [&](const std::string &ps, int64_t c, int &end) { end = (endc && (c & 8)) ? endc : 0; std::string t = ps; if (end && (c & 16)) { t += endc; t += (c & 32) ? "tail" : ""; } return t; };
		// stores: 0 = process-wide tree (holders 0..2 alias it), 1 = private C++ root
		MNode model[2];
		bool partial[2] = {false, false};     // an assignment failed for lack of memory in this store: empty elements may be left of it (values are still exact)
		{ Sut s; mpt_config_set(0, 0, 0, sep, 0); } // clear the process-wide configuration through its own API
		config::root *priv; { Sut s; priv = new config::root; }
		config_item *kept_item = 0;
		std::set<PathV> view_base_made;
		// sub-tree views
		metatype *vmt[2] = {0, 0}; config *vcfg[2] = {0, 0};
		const PathV vprefix[2] = {PathV{"a"}, PathV{"a", "b"}};
		for (int v = 0; v < 2; ++v) {
			std::string ps; for (auto &e : vprefix[v]) { if (!ps.empty()) ps += sep; ps += e; }
			mpt::path pp; pp.sep = sep; pp.assign = 0; { Sut s; mpt_path_set(&pp, ps.c_str(), -1); vmt[v] = mpt_config_global(&pp); }
			if (!vmt[v]) fail("setup", "no view on prefix");
			int rc; { Sut s; rc = vmt[v]->convert(TypeConfigPtr, &vcfg[v]); }
			if (rc < 0 || !vcfg[v]) fail("setup", "view does not convert to a configuration");
		}
		config *gconf = 0; { Sut s; metatype *gm = mpt_config_global(0); if (gm) gm->convert(TypeConfigPtr, &gconf); }
		if (!gconf) fail("setup", "the process-wide configuration does not convert to a configuration");
		log.ev("config sep='%c' empty-elements=%d", sep, (int) allow_empty);
		auto join = [&](const PathV &pv) { std::string s; for (size_t i = 0; i < pv.size(); ++i) { if (i) s += sep; s += pv[i]; } return s; };
		auto short_path = [&](const PathV &pv) { std::string s; for (size_t i = 0; i < pv.size(); ++i) { if (i) s += sep; s += pv[i].size() > 8 ? pv[i].substr(0, 3) + ".." + std::to_string(pv[i].size()) : pv[i]; } return s; };
		auto verify_all = [&](const char *after, int samples, uint64_t salt) {
			// every path of the model (or a sample) is re-queried through every holder that can see it
			for (int store = 0; store < 2; ++store) {
				std::vector<std::pair<PathV, const MNode *>> all; PathV cur; collect(model[store], cur, all);
				size_t step = samples && all.size() > (size_t) samples ? all.size() / samples : 1;
				for (size_t i = salt % (step ? step : 1); i < all.size(); i += step) {
					const PathV &pv = all[i].first; const MNode *mn = all[i].second;
					std::string got;
					bool found = query(store ? static_cast<config *>(priv) : 0, join(pv), sep, got);
					if (mn->has_value) {
						if (!found) fail("lost-value", "after %s: path '%s' no longer has a value (store %d)", after, short_path(pv).c_str(), store);
						if (got != mn->value) fail("wrong-value", "after %s: path '%s' reads %zu bytes, last assigned were %zu bytes (store %d)", after, short_path(pv).c_str(), got.size(), mn->value.size(), store);
					} else if (found && !got.empty()) fail("ghost-value", "after %s: path '%s' reads a value of %zu bytes that was never assigned (store %d)", after, short_path(pv).c_str(), got.size(), store);
					// through the views
					if (!store) for (int v = 0; v < 2; ++v) {
						if (pv.size() <= vprefix[v].size() || !std::equal(vprefix[v].begin(), vprefix[v].end(), pv.begin())) continue;
						PathV sub(pv.begin() + vprefix[v].size(), pv.end());
						std::string g2; bool f2 = query(vcfg[v], join(sub), sep, g2);
						if (mn->has_value && (!f2 || g2 != mn->value)) fail("view-differs", "after %s: view %d reads path '%s' differently from the global configuration", after, v, short_path(pv).c_str());
					}
				}
			}
		};
		for (const Op &op : p.ops) {
			int holder = (int) (op.a & 0xff) % 4; int depth = (int) ((op.a >> 8) & 0xf); if (depth < 1) depth = 1; if (depth > 3) depth = 3;
			PathV rel; for (int i = 0; i < depth; ++i) { std::string e = elem((unsigned) ((op.a >> (12 + 4 * i)) & 0xf)); if (e.empty() && !allow_empty) e = "c"; rel.push_back(e); }
			if (sep != '.') {} // elements never contain a separator character
			int store = holder == 3 ? 1 : 0;
			PathV abs = rel; if (holder == 1 || holder == 2) abs.insert(abs.begin(), vprefix[holder - 1].begin(), vprefix[holder - 1].end());
			config *conf = holder == 0 ? 0 : holder == 3 ? static_cast<config *>(priv) : vcfg[holder - 1];
			std::string ps = join(rel);
			uint64_t failn = op.fault == FL_ALLOC ? (uint64_t) std::max<int64_t>(op.fa, 1) : 0, fired = 0;
			int outcome = 0;
			st.hit(std::string("op:") + OPS[op.kind]);
			// empty leading/trailing elements are not expressible unambiguously in the textual path; skip those paths
			bool degenerate = false; for (size_t i = 0; i < rel.size(); ++i) if (rel[i].empty() && (i == 0 || i + 1 == rel.size())) degenerate = true;
			if (degenerate && op.kind != OP_WALK) { continue; }
			switch (op.kind) {
			case OP_ASSIGN: if (holder == 3 && (op.c & 0x600) == 0x600 && !kept_item) {
				// a copy of the private configuration is a configuration of its own: what is assigned to or removed from the copy stays there
				config::root *cp; { Sut s; cp = new config::root(*priv); }
				Block pb(ps.size() + 1, 0); memcpy(pb.p, ps.c_str(), ps.size() + 1);
				bool sr; { Sut s; sr = cp->set((const char *) pb.p, "copy-only", sep); }
				std::string got; bool found = query(cp, ps, sep, got);
				if (sr && (!found || got != "copy-only")) fail("lost-value", "a copy of the private configuration does not read what was just assigned to it at '%s'", short_path(rel).c_str());
				{ Sut s; if (op.c & 0x800) cp->del((const char *) pb.p, sep, -1); else cp->remove(0); }
				{ Sut s; delete cp; }
				log.ev("COPY of the private configuration: set '%s' -> %d, then %s, destroyed", short_path(rel).c_str(), (int) sr, (op.c & 0x800) ? "removed it" : "cleared the copy");
				st.hit("probe:cxx_config_copied"); outcome = 1;
				verify_all("COPY", 0, 0);
				break;
			} else {
				static const size_t lens[] = {0, 1, 5, 254, 255, 256, 1000, 70000};
				size_t vl = lens[op.b % 8];
				std::string val(vl, 'v'); for (size_t i = 0; i < vl; ++i) val[i] = (char) ('a' + (op.c + i) % 26);
				int rc; bool cxx = conf && (op.c & 2);
				int end = 0; std::string pt = cxx ? ps : path_text(ps, op.c, end);
				Block pb(pt.size() + 1, 0); memcpy(pb.p, pt.c_str(), pt.size() + 1);
				Block vb(vl + 1, 0); memcpy(vb.p, val.c_str(), vl + 1);
				bool fitsb = true; for (auto &e : rel) if (e.size() > 255) fitsb = false;
				if (!cxx && fitsb && (op.c & 192) == 64) {
					// the same assignment with the path handed over in its length-prefixed form
					mpt::path bp; bp.sep = sep; bp.assign = 0; bp.flags = mpt::path::SepBinary; bool okp = true;
					for (auto &e : rel) { for (char c : e) { int r; { Sut s; r = mpt_path_addchar(&bp, (unsigned char) c); if (r >= 0) r = mpt_path_valid(&bp); } if (r < 0) okp = false; } int r; { Sut s; r = mpt_path_add(&bp, (int) e.size()); } if (r < 0) okp = false; }
					if (!okp) fail("refused-valid", "length-prefixed path: element-wise construction of '%s' refused", short_path(rel).c_str());
					config *cf = conf ? conf : gconf; const char *vp = (const char *) vb.p; value v; v.set('s', &vp);
					{ Sut s(failn); mpt::path use(bp); rc = cf->assign(&use, &v); fired = g.fired; }
					{ Sut s; mpt_path_fini(&bp); }
					st.hit("probe:binary_path_assign");
				} else
				{ Sut s(failn); if (cxx) rc = conf->set((const char *) pb.p, (const char *) vb.p, sep) ? 0 : -1; else rc = mpt_config_set(conf, (const char *) pb.p, (const char *) vb.p, sep, end); fired = g.fired; }
				if (cxx) st.hit("probe:cxx_config_set");
				if (end) st.hit(pt.size() > ps.size() ? "probe:path_with_end_delimiter" : "probe:end_delimiter_not_in_path");
				log.ev("ASSIGN holder %d '%s' := %zu bytes%s -> %d", holder, short_path(rel).c_str(), vl, fired ? " allocfail" : "", rc);
				if (rc < 0) {
					// (while a copy of an item exists its sub-element buffer has two owners and cannot be copied: a change that would have to grow it is refused)
					if (!fired && !(holder == 3 && kept_item)) fail("refused-valid", "assignment of %zu bytes to '%s' through holder %d refused (%d) without allocation fault", vl, short_path(rel).c_str(), holder, rc);
					if (!fired) st.hit("probe:assignment_refused_beside_item_copy");
					// a failed assignment may have created intermediate nodes without values; values must be untouched
					// (the private C++ configuration may keep unnamed, unused slots of a path it could not finish; the process-wide one takes back
					// what the failed call had already linked)
					if (store == 1) partial[store] = true;
					// (a sub-tree view makes the element it stands on before it assigns beneath it; that element - nothing else - may stay when the assignment fails)
					if (holder == 1 || holder == 2) { PathV pre; for (auto &e : vprefix[holder - 1]) { pre.push_back(e); view_base_made.insert(pre); } }
					outcome = 0;
				} else {
					MNode *mn = find(model[store], abs, true); mn->has_value = true; mn->value = val; outcome = 1;
				}
				break;
			}
			case OP_VSELF: {
				int v = (int) (op.a & 1); unsigned what = (unsigned) op.c % 3;
				MNode *bn = find(model[0], vprefix[v], false);
				if (what == 0) {
					std::string val = "self" + std::to_string(op.c);
					Block vb(val.size() + 1, 0); memcpy(vb.p, val.c_str(), val.size() + 1);
					int rc; { Sut s(failn); rc = mpt_config_set(vcfg[v], 0, (const char *) vb.p, sep, 0); fired = g.fired; }
					log.ev("VIEW_SELF %d := '%s'%s -> %d", v, val.c_str(), fired ? " allocfail" : "", rc);
					if (rc < 0) { if (!fired) fail("refused-valid", "assigning a value to the element view %d stands on was refused (%d)", v, rc); }
					else { MNode *mn = find(model[0], vprefix[v], true); mn->has_value = true; mn->value = val; outcome = 1; }
				} else if (what == 1) {
					int rc; { Sut s; rc = mpt_config_set(vcfg[v], 0, 0, sep, 0); }
					log.ev("VIEW_SELF %d: remove everything beneath -> %d", v, rc);
					if (bn) { bn->kids.clear(); bn->order.clear(); outcome = 1; }
				} else {
					int rc; { Sut s; rc = vcfg[v]->remove(0); }
					log.ev("VIEW_SELF %d: drop own value -> %d", v, rc);
					if (bn) { bn->has_value = false; bn->value.clear(); outcome = 1; }
				}
				break;
			}
			case OP_REMOVE: {
				// (sometimes a plain copy of one of the private configuration's top-level items is taken first and kept for a while: it shares the
				// item's sub-element buffer, as any copy of a config_item does; the configuration must go on as if it were not there)
				if (holder == 3 && (op.c & 0x180) == 0x180) {
					if (kept_item) { Sut s; delete kept_item; kept_item = 0; }
					else { auto its = priv->items(); long n = (long) its.size(); if (n) { const config_item &src = its.begin()[(size_t) (op.c >> 9) % (size_t) n]; if (!src.unused()) { Sut s; kept_item = new config_item(src); st.hit("probe:config_item_copy_kept"); } } }
				}
				int end = 0; std::string pt = (conf && (op.c & 2)) ? ps : path_text(ps, op.c, end);
				Block pb(pt.size() + 1, 0); memcpy(pb.p, pt.c_str(), pt.size() + 1);
				int rc = 0; if (conf && (op.c & 2)) { Sut s; conf->del((const char *) pb.p, sep, (op.c & 4) ? (int) ps.size() : -1); st.hit("probe:cxx_config_del"); } else { Sut s; rc = mpt_config_set(conf, (const char *) pb.p, 0, sep, end); }
				log.ev("REMOVE holder %d '%s' -> %d", holder, short_path(rel).c_str(), rc);
				PathV par(abs.begin(), abs.end() - 1);
				MNode *pn = find(model[store], par, false);
				if (pn && pn->kids.count(abs.back())) { pn->kids.erase(abs.back()); pn->order.erase(std::find(pn->order.begin(), pn->order.end(), abs.back())); outcome = 1; }
				(void) rc; // removing what is not there may be reported as an error; only the effect is judged
				break;
			}
			case OP_GET: {
				std::string got; bool found = query(conf, ps, sep, got);
				MNode *mn = find(model[store], abs, false);
				log.ev("GET holder %d '%s' -> %s (%zu bytes)", holder, short_path(rel).c_str(), found ? "value" : "absent", got.size());
				if (!degenerate) {
					// the plain existence query: present for what was assigned and not removed (and for what lies above such a path), absent otherwise
					mpt::path ep; ep.sep = sep; ep.assign = 0; Block eb(ps.size() + 1, 0); memcpy(eb.p, ps.c_str(), ps.size() + 1);
					int ex; { Sut s; mpt_path_set(&ep, (const char *) eb.p, -1); ex = mpt_config_query(conf, &ep, 0, 0); }
					if (!mn && ex >= 0 && !partial[store] && !(store == 0 && view_base_made.count(abs))) fail("ghost-path", "path '%s' was never assigned (or was removed) but holder %d reports it as present (%d)", short_path(rel).c_str(), holder, ex);
					if (mn && ex < 0) fail("lost-path", "path '%s' exists (assigned, or above an assigned path) but holder %d reports it as absent (%d)", short_path(rel).c_str(), holder, ex);
				}
				if (mn && mn->has_value) {
					if (!found) fail("lost-value", "path '%s' was assigned %zu bytes but reads as absent through holder %d", short_path(rel).c_str(), mn->value.size(), holder);
					if (got != mn->value) fail("wrong-value", "path '%s' reads %zu bytes through holder %d, most recently assigned were %zu bytes", short_path(rel).c_str(), got.size(), holder, mn->value.size());
					outcome = 1;
				} else {
					if (found && !got.empty()) fail("ghost-value", "path '%s' was never assigned (or was removed) but reads %zu bytes through holder %d", short_path(rel).c_str(), got.size(), holder);
					outcome = 0;
				}
				break;
			}
			case OP_WALK: {
				// splitting a path string into elements visits exactly the separator-delimited components
				mpt::path wp; wp.sep = sep; wp.assign = 0;
				Block pb(ps.size() + 1, 0); memcpy(pb.p, ps.c_str(), ps.size() + 1);
				{ Sut s; mpt_path_set(&wp, (const char *) pb.p, -1); }
				PathV seen; int guard = 0;
				while (true) {
					const char *base = wp.base + wp.off; int l; { Sut s; l = mpt_path_next(&wp); }
					if (l < 0) break;
					seen.emplace_back(base, (size_t) l);
					if (++guard > 16) fail("walk-loop", "path iteration does not end");
				}
				log.ev("WALK '%s' -> %zu elements", short_path(rel).c_str(), seen.size());
				PathV want = rel; while (!want.empty() && want.back().empty() && want.size() > 1) break;
				if (!degenerate && seen != rel) {
					std::string a; for (auto &e : seen) { a += "[" + (e.size() > 8 ? std::to_string(e.size()) : e) + "]"; }
					fail("walk-differs", "iterating '%s' visits %zu elements %s, the string has %zu components", short_path(rel).c_str(), seen.size(), a.c_str(), rel.size());
				}
				// reduce the path to its last element: what remains iterates as exactly that component
				if (!degenerate && !rel.empty()) {
					mpt::path lp; lp.sep = sep; lp.assign = 0;
					{ Sut s; mpt_path_set(&lp, (const char *) pb.p, -1); }
					int ll; { Sut s; ll = mpt_path_last(&lp); }
					const std::string &last = rel.back();
					if (ll != (int) last.size()) fail("walk-differs", "mpt_path_last on '%s' reports a last element of %d characters, the string ends with one of %zu", short_path(rel).c_str(), ll, last.size());
					PathV seenl; int gl = 0;
					while (true) { const char *base = lp.base + lp.off; int l; { Sut s; l = mpt_path_next(&lp); } if (l < 0) break; seenl.emplace_back(base, (size_t) l); if (++gl > 16) break; }
					if (seenl.size() != 1 || seenl[0] != last) fail("walk-differs", "after mpt_path_last on '%s' the path iterates as %zu element(s)%s, expected the last component of %zu characters alone", short_path(rel).c_str(), seenl.size(), seenl.size() == 1 ? (" of " + std::to_string(seenl[0].size()) + " characters").c_str() : "", last.size());
					st.hit("probe:path_last");
					// the same on a path whose first element was already walked off
					if (rel.size() >= 2) {
						mpt::path l2; l2.sep = sep; l2.assign = 0;
						{ Sut s; mpt_path_set(&l2, (const char *) pb.p, -1); mpt_path_next(&l2); }
						int l2l; { Sut s; l2l = mpt_path_last(&l2); }
						if (l2l != (int) last.size() || std::string(l2.base + l2.off, (size_t) (l2l < 0 ? 0 : l2l)) != last)
							fail("walk-differs", "mpt_path_last after one mpt_path_next on '%s' gives an element of %d characters at offset %zu, the last component has %zu", short_path(rel).c_str(), l2l, (size_t) l2.off, last.size());
					}
				}
				// rebuild element by element and compare
				if (!degenerate) {
					mpt::path bp; bp.sep = sep; bp.assign = 0; bool ok = true;
					for (auto &e : rel) {
						// a character stays pending (the next one replaces it) until mpt_path_valid() keeps it
						for (char c : e) { int r; { Sut s; r = mpt_path_addchar(&bp, (unsigned char) c); if (r >= 0) r = mpt_path_valid(&bp); } if (r < 0) ok = false; }
						int r; { Sut s; r = mpt_path_add(&bp, (int) e.size()); } if (r < 0) ok = false;
					}
					if (!ok) fail("refused-valid", "element-wise construction of '%s' refused", short_path(rel).c_str());
					if (ok) {
						PathV seen2; mpt::path it(bp); int g2 = 0;
						while (true) { const char *base = it.base + it.off; int l; { Sut s; l = mpt_path_next(&it); } if (l < 0) break; seen2.emplace_back(base, (size_t) l); if (++g2 > 16) break; }
						if (seen2 != rel) fail("walk-differs", "a path rebuilt element by element from '%s' iterates as %zu elements", short_path(rel).c_str(), seen2.size());
					}
					if (ok && rel.size() >= 3) {
						// walk off the first element of the rebuilt path, drop its last one: the middle remains, and the path can be extended again
						int r1, r2; { Sut s; r1 = mpt_path_next(&bp); r2 = mpt_path_del(&bp); }
						PathV mid(rel.begin() + 1, rel.end() - 1), seen5; mpt::path it(bp); int g5 = 0;
						while (true) { const char *base = it.base + it.off; int l; { Sut s; l = mpt_path_next(&it); } if (l < 0) break; seen5.emplace_back(base, (size_t) l); if (++g5 > 16) break; }
						if (r1 < 0 || r2 < 0 || seen5 != mid) fail("walk-differs", "rebuilt path '%s': after next (%d) and del (%d) %zu elements remain, the %zu middle ones were expected", short_path(rel).c_str(), r1, r2, seen5.size(), mid.size());
						int rv; { Sut s; rv = mpt_path_valid(&bp); }
						if (rv < 0) fail("walk-differs", "rebuilt path '%s' is reported invalid (%d) after next and del", short_path(rel).c_str(), rv);
						st.hit("probe:path_next_then_del");
					}
					{ Sut s; mpt_path_fini(&bp); }
					// the same through the C++ path class: add(n) closes an element of n characters, next() walks, del() drops the last element
					if (op.c & 1) {
						mpt::path *cp; { Sut s; cp = new mpt::path(0, sep, 0); }
						bool ok2 = true;
						for (auto &e : rel) {
							for (char c : e) { int r; { Sut s; r = mpt_path_addchar(cp, (unsigned char) c); if (r >= 0) r = mpt_path_valid(cp); } if (r < 0) ok2 = false; }
							int r; { Sut s; r = cp->add((int) e.size()); } if (r < 0) ok2 = false;
						}
						st.hit("probe:cxx_path_rebuilt");
						if (!ok2) fail("refused-valid", "C++ path: element-wise construction of '%s' refused", short_path(rel).c_str());
						{ mpt::path it(*cp); PathV seen3; int g3 = 0;
						  while (true) { const char *base = it.base + it.off; size_t before = it.len; bool more; { Sut s; more = it.next(); } if (!more) break; seen3.emplace_back(base, e_len(base, sep, before)); if (++g3 > 16) break; }
						  if (seen3 != rel) fail("walk-differs", "C++ path rebuilt element by element from '%s' iterates as %zu elements", short_path(rel).c_str(), seen3.size()); }
						if (rel.size() > 1) {
							int r; { Sut s; r = cp->del(); }
							PathV want(rel.begin(), rel.end() - 1); mpt::path it(*cp); PathV seen4; int g4 = 0;
							while (true) { const char *base = it.base + it.off; int l; { Sut s; l = mpt_path_next(&it); } if (l < 0) break; seen4.emplace_back(base, (size_t) l); if (++g4 > 16) break; }
							if (r < 0 || seen4 != want) fail("walk-differs", "C++ path: after del() on '%s' %zu elements remain (result %d), %zu expected", short_path(rel).c_str(), seen4.size(), r, want.size());
						}
						{ Sut s; delete cp; }
					}
				}
				// the length-prefixed path format (elements of up to 255 bytes): built element by element, it walks, reduces and shrinks like the text form
				bool fits = !rel.empty(); for (auto &e : rel) if (e.size() > 255) fits = false;
				if (!degenerate && fits && (op.c & 64)) {
					mpt::path bp; bp.sep = sep; bp.assign = 0; bp.flags = mpt::path::SepBinary; bool ok = true;
					for (auto &e : rel) {
						for (char c : e) { int r; { Sut s; r = mpt_path_addchar(&bp, (unsigned char) c); if (r >= 0) r = mpt_path_valid(&bp); } if (r < 0) ok = false; }
						int r; { Sut s; r = mpt_path_add(&bp, (int) e.size()); } if (r < 0) ok = false;
					}
					if (!ok) fail("refused-valid", "length-prefixed path: element-wise construction of '%s' refused", short_path(rel).c_str());
					auto walk = [&](const mpt::path &from) { PathV out; mpt::path it(from); int gb = 0; while (true) { const char *base = it.base + it.off; int l; { Sut s; l = mpt_path_next(&it); } if (l < 0) break; out.emplace_back(base, (size_t) l); if (++gb > 16) break; } return out; };
					PathV sb = walk(bp);
					if (sb != rel) fail("walk-differs", "a length-prefixed path built from '%s' iterates as %zu elements", short_path(rel).c_str(), sb.size());
					{ mpt::path lp(bp); int ll; { Sut s; ll = mpt_path_last(&lp); } const std::string &last = rel.back();
					  if (ll != (int) last.size()) fail("walk-differs", "mpt_path_last on the length-prefixed form of '%s' reports a last element of %d bytes, it has %zu", short_path(rel).c_str(), ll, last.size());
					  PathV sl = walk(lp); if (sl.size() != 1 || sl[0] != last) fail("walk-differs", "after mpt_path_last the length-prefixed form of '%s' iterates as %zu element(s), expected its last one alone", short_path(rel).c_str(), sl.size()); }
					if (rel.size() >= 2) { mpt::path l2(bp); int l2l; { Sut s; mpt_path_next(&l2); l2l = mpt_path_last(&l2); } const std::string &last = rel.back();
					  if (l2l != (int) last.size() || std::string(l2.base + l2.off, (size_t) (l2l < 0 ? 0 : l2l)) != last) fail("walk-differs", "mpt_path_last after one mpt_path_next on the length-prefixed form of '%s' gives %d bytes, the last element has %zu", short_path(rel).c_str(), l2l, last.size()); }
					{ // walked off completely, then extended again: the new element is the next (and only) one
						mpt::path re(bp); int g6 = 0; while (true) { int l; { Sut s; l = mpt_path_next(&re); } if (l < 0 || ++g6 > 16) break; }
						bool ok6 = true; for (char c : std::string("zz")) { int r; { Sut s; r = mpt_path_addchar(&re, (unsigned char) c); if (r >= 0) r = mpt_path_valid(&re); } if (r < 0) ok6 = false; }
						int ra; { Sut s; ra = mpt_path_add(&re, 2); }
						PathV s6 = walk(re);
						if (!ok6 || ra < 0 || s6 != PathV{"zz"}) fail("walk-differs", "length-prefixed form of '%s' walked off and extended by one element of 2 bytes iterates as %zu element(s)%s", short_path(rel).c_str(), s6.size(), s6.size() == 1 ? (" of " + std::to_string(s6[0].size()) + " bytes").c_str() : "");
						st.hit("probe:binary_path_extended_after_walk");
					}
					if (rel.size() >= 3) {
						int r1, r2; { Sut s; r1 = mpt_path_next(&bp); r2 = mpt_path_del(&bp); }
						PathV mid(rel.begin() + 1, rel.end() - 1), s5 = walk(bp);
						if (r1 < 0 || r2 < 0 || s5 != mid) fail("walk-differs", "length-prefixed form of '%s': after next (%d) and del (%d) %zu elements remain, the %zu middle ones were expected", short_path(rel).c_str(), r1, r2, s5.size(), mid.size());
					}
					{ Sut s; mpt_path_fini(&bp); }
					st.hit("probe:binary_path_walk");
				}
				outcome = (int) seen.size();
				break;
			}
			case OP_SWEEP: {
				verify_all("SWEEP", 0, 0); outcome = 1;
				// the private C++ configuration lists its elements (the collection handed to a query handler): exactly the paths that exist, by name
				struct Lst { std::set<std::string> paths; std::string cur; char sep; int nameless = 0; int depth = 0;
					static int item(void *ctx, const identifier *id, convertable *, const collection *sub) { Harness h; Lst *l = (Lst *) ctx;
						const char *nm = id ? id->name() : 0; if (!nm && !(id && id->_len)) { ++l->nameless; return 0; }
						std::string keep = l->cur; if (!l->cur.empty() || l->depth) l->cur += l->sep; l->cur += nm ? nm : ""; l->paths.insert(l->cur);
						if (sub && l->depth < 8) { ++l->depth; { Reenter r; sub->each(item, ctx); } --l->depth; }
						l->cur = keep; return 0; }
					static int top(void *ctx, convertable *, const collection *c) { Harness h; if (c) { Reenter r; c->each(item, ctx); } return 0; } } lst;
				lst.sep = sep;
				{ Sut s; priv->query(0, Lst::top, &lst); }
				std::vector<std::pair<PathV, const MNode *>> all; PathV cur; collect(model[1], cur, all);
				std::set<std::string> want; for (auto &e : all) want.insert(join(e.first));
				if (lst.nameless) fail("ghost-path", "the private configuration lists %d element(s) without a name (removed elements?) beside %zu named ones", lst.nameless, lst.paths.size());
				if (!partial[1]) for (auto &pth : lst.paths) if (!want.count(pth)) fail("ghost-path", "the private configuration lists '%.40s', which was never assigned or was removed", pth.c_str());
				for (auto &pth : want) if (!lst.paths.count(pth)) fail("lost-path", "the private configuration does not list '%.40s', which exists", pth.c_str());
				st.hit("probe:cxx_config_listing");
				break;
			}
			}
			if (fired) st.hit("fault:allocfail");
			st.state(900 + op.kind, holder * 16 + depth * 4 + (fired ? 2 : 0) + (sep != '.' ? 1 : 0), outcome + 8 * (int) (op.b % 8));
			check_pending();
			verify_all(OPS[op.kind], 6, (uint64_t) op.c);
		}
		verify_all("END", 0, 0);
		// teardown
		for (int v = 0; v < 2; ++v) { Sut s; vmt[v]->unref(); }
		if (kept_item) { Sut s; delete kept_item; kept_item = 0; }
		{ Sut s; delete priv; }
		{ Sut s; mpt_config_set(0, 0, 0, sep, 0); }
		if (ledger_live()) fail("leak", "%zu block(s) allocated after the configuration was cleared: %s", ledger_live(), ledger_describe().c_str());
	}
};

namespace sim { World *the_world() { static ConfigWorld w; return &w; } }
