// world `ring` (C13): history of operations on one ring-buffer queue, starting
// from a plan-chosen (capacity, offset, fill) state incl. wrapped content, judged
// against a std::deque; storage is an exact-size heap block, load/save go through
// simulated descriptors, realloc may fail.
#include "worlds/common.hpp"
#include <sys/mman.h>
#include "kernel/simio.hpp"
#include <fcntl.h>
#define protected public
#define private public
#include "io.h"
#undef protected
#undef private

using namespace sim;
using namespace mpt;

enum { OP_PUSH, OP_UNSHIFT, OP_POST, OP_PRE, OP_POP, OP_SHIFT, OP_CROP, OP_GET, OP_SET, OP_ALIGN, OP_RESIZE, OP_PREPARE,
       OP_FIND, OP_STRING, OP_LOAD, OP_SAVE, OP_QUERY, OP_CXX };
static const char *const OPS[] = {"PUSH", "UNSHIFT", "POST", "PRE", "POP", "SHIFT", "CROP", "GET", "SET", "ALIGN", "RESIZE", "PREPARE",
                                  "FIND", "STRING", "LOAD", "SAVE", "QUERY", "CXX", 0};
enum { FL_NONE, FL_ALLOC, FL_SHORT, FL_EAGAIN, FL_EIO };
static const char *const FAULTS[] = {"none", "allocfail", "short", "eagain", "eio", 0};

struct FindArg { const uint8_t *needle; size_t esz; int calls; };
static int find_cmp(const void *elem, void *arg) {
	Harness h;
	FindArg *a = (FindArg *) arg; ++a->calls;
	return memcmp(elem, a->needle, a->esz);
}

struct RingWorld : World {
	const char *name() const override { return "ring"; }
	const char *const *opnames() const override { return OPS; }
	const char *const *faultnames() const override { return FAULTS; }
	const char *const *shrinkable_cfg() const override { static const char *const k[] = {"off", "fill", "cap", 0}; return k; }
	const char *components_json() const override {
		return "{\"real\":[\"mpt_qpush\",\"mpt_qunshift\",\"mpt_qpost\",\"mpt_qpre\",\"mpt_qpop\",\"mpt_qshift\",\"mpt_queue_crop\",\"mpt_queue_get\",\"mpt_queue_set\",\"mpt_queue_data\",\"mpt_queue_empty\","
		       "\"mpt_queue_align\",\"mpt_queue_resize\",\"mpt_queue_prepare\",\"mpt_queue_find\",\"mpt_queue_string\",\"mpt_queue_load\",\"mpt_queue_save\",\"mpt_memrev/mpt_memswap\",\"C++ io::queue push/pop/shift/unshift/peek\"],"
		       "\"stub\":[\"storage block and initial (capacity, offset, fill) state\",\"descriptors for load/save (short counts, EAGAIN, EIO)\",\"allocator (realloc failure)\",\"std::deque reference model\"]}";
	}
	void gen(Rng &r, Plan &p, int tier) override {
		static const int caps[] = {1, 2, 3, 8, 16, 17, 64, 100, 300, 1100, 2100};
		int cap = r.pick(caps);
		p.set("cap", cap);
		p.set("off", r.range(0, cap - 1));
		p.set("fill", r.chance(1, 4) ? cap : r.range(0, cap));
		p.set("vast", r.chance(1, 300) ? r.range(1, 64) : 0);      // rarely: a queue over user memory of 2 GiB and a few bytes (untouched pages cost nothing), as mpt_stream_memory may be given
		int nops = (int) r.range(1, tier ? 150 : 60);
		bool allocf = r.chance(1, 3), iof = r.chance(1, 3);
		for (int i = 0; i < nops; ++i) {
			Op op; op.kind = (int) r.below(18);
			if (op.kind == OP_CXX && !r.chance(1, 3)) op.kind = (int) r.below(9);
			// sizes relative to stored / free are resolved at execution time: a = selector, b = delta
			op.a = r.below(8);       // 0: 0, 1: 1, 2: stored, 3: free, 4: first segment, 5: second segment, 6: random small, 7: random up to cap
			op.b = r.range(-2, 2);
			op.c = r.below(1000);
			if (allocf && (op.kind == OP_RESIZE || op.kind == OP_PREPARE || op.kind == OP_CXX) && r.chance(1, 3)) { op.fault = FL_ALLOC; op.fa = 1; }
			if (iof && (op.kind == OP_LOAD || op.kind == OP_SAVE) && r.chance(1, 2)) { op.fault = (int) r.range(FL_SHORT, FL_EIO); op.fa = r.range(1, 20); }
			p.ops.push_back(op);
		}
	}

	void exec(const Plan &p, Log &log, Stats &st) override {
		if (p.get("vast") > 0) {
			// counts of free elements beyond 2^31 must not be taken for error codes: what is pushed is stored and reported as stored
			size_t vcap = ((size_t) 1 << 31) + (size_t) std::min<int64_t>(p.get("vast"), 64);
			void *mem = mmap(0, vcap, PROT_READ | PROT_WRITE, MAP_PRIVATE | MAP_ANONYMOUS | MAP_NORESERVE, -1, 0);
			if (mem == MAP_FAILED) { log.ev("vast: no address space"); return; }
			struct Unmap { void *m; size_t n; ~Unmap() { munmap(m, n); } } um{mem, vcap};
			queue v; v.base = mem; v.max = vcap; v.off = 0; v.len = 0;
			int r0, r1, r2; { Sut s; r0 = mpt_qpush(&v, 2, "ab"); r1 = mpt_qpush(&v, 1, "c"); }
			size_t l1 = v.len; { Sut s; r2 = mpt_qunshift(&v, 1, "z"); }
			log.ev("vast cap=2^31+%lld: push 2 -> %d, push 1 -> %d (len %zu), unshift 1 -> %d (len %zu off %zu)", (long long) p.get("vast"), r0, r1, l1, r2, v.len, v.off);
			if (r0 < 0 || r1 < 0 || l1 != 3 || memcmp(v.base, "abc", 3)) fail("refused-valid", "push of 1 byte to a queue of 2^31+%lld bytes holding 2: result %d, length %zu, content %.3s", (long long) p.get("vast"), r1, l1, (const char *) v.base);
			uint8_t first = 0; { Sut s; mpt_queue_get(&v, 0, 1, &first); }
			if (r2 < 0 || v.len != 4 || first != 'z') fail("refused-valid", "unshift of 1 byte on a queue of 2^31+%lld bytes holding 3: result %d, length %zu, first byte %02x", (long long) p.get("vast"), r2, v.len, first);
			st.hit("probe:queue_over_2GiB"); st.state(599, 0, 1);
			return;
		}
		size_t cap = (size_t) std::min<int64_t>(std::max<int64_t>(p.get("cap", 16), 1), 8192);
		size_t off = (size_t) std::max<int64_t>(p.get("off"), 0) % cap;
		size_t fill = std::min<size_t>((size_t) std::max<int64_t>(p.get("fill"), 0), cap);
		queue q;
		std::deque<uint8_t> d;
		uint32_t serial = 0;
		auto nextbyte = [&]() -> uint8_t { return (uint8_t) (1 + (serial++ % 251)); };
		q.base = malloc(cap); q.max = cap; q.off = off; q.len = fill;
		memset(q.base, 0xEE, cap);
		for (size_t i = 0; i < fill; ++i) { uint8_t b = nextbyte(); ((uint8_t *) q.base)[(off + i) % cap] = b; d.push_back(b); }
		struct Free { queue &q; ~Free() { free(q.base); q.base = 0; } } fr{q};
		log.ev("ring cap=%zu off=%zu fill=%zu", cap, off, fill);
		int lch = simio::new_chan(1 << 20), sch = simio::new_chan(1 << 20);
		int lfd = simio::new_fd(lch, -1, O_RDONLY | O_NONBLOCK), sfd = simio::new_fd(-1, sch, O_WRONLY | O_NONBLOCK);

		auto content = [&]() -> Bytes {
			Bytes b(q.len);
			if (q.len) { int rc; { Sut s; rc = mpt_queue_get(&q, 0, q.len, b.data()); } if (rc < 0) fail("state", "cannot read the %zu stored bytes back (get returns %d)", q.len, rc); }
			return b;
		};
		auto verify = [&](const char *after) {
			if (q.len > q.max || (q.max && q.off > q.max)) fail("state", "after %s: len=%zu max=%zu off=%zu", after, q.len, q.max, q.off);
			if (q.len != d.size()) fail("content", "after %s: queue holds %zu bytes, a deque would hold %zu", after, q.len, d.size());
			// physical read, independent of the library accessors
			for (size_t i = 0; i < q.len; ++i) {
				uint8_t b = ((uint8_t *) q.base)[(q.off + i) % q.max];
				if (b != d[i]) fail("content", "after %s: byte %zu of %zu is %02x, a deque would hold %02x (off=%zu max=%zu)", after, i, q.len, b, d[i], q.off, q.max);
			}
			Bytes c = content();
			for (size_t i = 0; i < c.size(); ++i) if (c[i] != d[i]) fail("read", "after %s: mpt_queue_get returns %02x at %zu, stored is %02x", after, c[i], i, d[i]);
		};
		// where the content physically lies (an offset equal to the capacity denotes position 0)
		auto segs = [&](size_t &low, size_t &high) { size_t start = q.max ? q.max - q.off % q.max : 0; low = q.len > start ? start : q.len; high = q.len - low; };
		auto pick = [&](const Op &op, bool free_rel) -> size_t {
			size_t low, high; segs(low, high);
			size_t stored = q.len, fre = q.max - q.len, base;
			switch (op.a & 7) {
			case 0: base = 0; break; case 1: base = 1; break; case 2: base = stored; break; case 3: base = fre; break;
			case 4: base = low; break; case 5: base = high; break; case 6: base = (size_t) op.c % 9; break; default: base = (size_t) op.c % (q.max + 2); break;
			}
			(void) free_rel;
			int64_t v = (int64_t) base + ((op.a & 7) >= 2 && (op.a & 7) <= 5 ? op.b : 0);
			return v < 0 ? 0 : (size_t) v;
		};
		auto abstract = [&](int kind, int outcome, size_t n) {
			size_t low, high; segs(low, high);
			int wrapped = high > 0, full = q.len == q.max, empty = q.len == 0;
			int rel = n == 0 ? 0 : n <= low ? 1 : n <= q.len ? 2 : 3;
			st.state(100 + kind, wrapped * 32 + full * 16 + empty * 8 + rel, outcome);
			if (wrapped) st.hit("probe:wrapped_state");
		};
		verify("setup");
		for (const Op &op : p.ops) {
			size_t n = pick(op, false);
			size_t stored = q.len, fre = q.max - q.len;
			uint64_t failn = op.fault == FL_ALLOC ? 1 : 0;
			st.hit(std::string("op:") + OPS[op.kind]);
			switch (op.kind) {
			case OP_PUSH: case OP_UNSHIFT: {
				Bytes data(n); for (auto &b : data) b = nextbyte();
				bool zero = (op.c % 7) == 0; // NULL source = zero fill
				Block src(n, 0); if (n) memcpy(src.p, data.data(), n);
				int rc; { Sut s; rc = op.kind == OP_PUSH ? mpt_qpush(&q, n, zero ? 0 : src.p) : mpt_qunshift(&q, n, zero ? 0 : src.p); }
				log.ev("%s %zu%s -> %d (stored %zu free %zu)", OPS[op.kind], n, zero ? " zeros" : "", rc, stored, fre);
				if (n > fre) { if (rc >= 0) fail("accepted-overflow", "%s of %zu bytes accepted with %zu free", OPS[op.kind], n, fre); }
				else if (rc < 0) { if (n) fail("refused-valid", "%s of %zu bytes refused (%d) with %zu free", OPS[op.kind], n, rc, fre); }
				else { if (zero) for (auto &b : data) b = 0; if (op.kind == OP_PUSH) d.insert(d.end(), data.begin(), data.end()); else d.insert(d.begin(), data.begin(), data.end()); }
				abstract(op.kind, rc < 0 ? 0 : 1, n);
				break;
			}
			case OP_POST: case OP_PRE: {
				ssize_t rc; { Sut s; rc = op.kind == OP_POST ? mpt_qpost(&q, n) : mpt_qpre(&q, n); }
				log.ev("%s %zu -> %zd", OPS[op.kind], n, rc);
				if (n > fre) { if (rc >= 0) fail("accepted-overflow", "%s of %zu bytes accepted with %zu free", OPS[op.kind], n, fre); }
				else if (rc < 0) { if (n) fail("refused-valid", "%s of %zu bytes refused (%zd) with %zu free", OPS[op.kind], n, rc, fre); }
				else if (n) {
					// region is raw; the harness writes it through mpt_queue_set
					Bytes data(n); for (auto &b : data) b = nextbyte();
					int sr; { Sut s; sr = mpt_queue_set(&q, op.kind == OP_POST ? q.len - n : 0, n, data.data()); }
					if (sr < 0) fail("refused-valid", "set of the %zu bytes just reserved refused (%d)", n, sr);
					if (op.kind == OP_POST) d.insert(d.end(), data.begin(), data.end()); else d.insert(d.begin(), data.begin(), data.end());
				}
				abstract(op.kind, rc < 0 ? 0 : 1, n);
				break;
			}
			case OP_POP: case OP_SHIFT: {
				bool nodst = (op.c % 5) == 0;
				Block dst(n, 0); memset(dst.p, 0xCC, n);
				size_t low, high; segs(low, high);
				bool split = op.kind == OP_POP ? (high && n > high) : (n > low);
				void *r; { Sut s; r = op.kind == OP_POP ? mpt_qpop(&q, n, nodst ? 0 : dst.p) : mpt_qshift(&q, n, nodst ? 0 : dst.p); }
				log.ev("%s %zu%s -> %s (stored %zu, segments %zu+%zu)", OPS[op.kind], n, nodst ? " nodst" : "", r ? "ok" : "null", stored, low, high);
				if (n > stored) { if (r) fail("accepted-underflow", "%s of %zu bytes accepted with %zu stored", OPS[op.kind], n, stored); }
				else if (!r) { if (!(nodst && split)) fail("refused-valid", "%s of %zu bytes refused with %zu stored", OPS[op.kind], n, stored); }
				else {
					Bytes want(n);
					for (size_t i = 0; i < n; ++i) want[i] = op.kind == OP_POP ? d[stored - n + i] : d[i];
					if (!nodst && n && memcmp(dst.p, want.data(), n)) {
						size_t k = 0; while (dst.p[k] == want[k]) ++k;
						fail("read", "%s of %zu bytes returned %02x at %zu, a deque returns %02x (segments %zu+%zu)", OPS[op.kind], n, dst.p[k], k, want[k], low, high);
					}
					if (nodst && n && !split && memcmp(r, want.data(), n)) fail("read", "%s: returned address does not hold the removed bytes", OPS[op.kind]);
					if (op.kind == OP_POP) d.erase(d.end() - n, d.end()); else d.erase(d.begin(), d.begin() + n);
				}
				abstract(op.kind, r ? 1 : 0, n);
				break;
			}
			case OP_CROP: case OP_GET: case OP_SET: {
				size_t pos = stored ? (size_t) op.c % (stored + 2) : (size_t) op.c % 2;
				if (op.b == 2) pos = stored >= n ? stored - n : 0;
				bool valid = pos <= stored && n <= stored - pos;
				if (op.kind == OP_CROP) {
					int rc; { Sut s; rc = mpt_queue_crop(&q, pos, n); }
					log.ev("CROP pos=%zu len=%zu -> %d (stored %zu)", pos, n, rc, stored);
					if (!valid) { if (rc >= 0) fail("accepted-underflow", "crop(%zu,%zu) accepted with %zu stored", pos, n, stored); }
					else if (rc < 0) fail("refused-valid", "crop(%zu,%zu) refused (%d) with %zu stored", pos, n, rc, stored);
					else d.erase(d.begin() + pos, d.begin() + pos + n);
					abstract(op.kind, rc < 0 ? 0 : 1, n);
				} else if (op.kind == OP_GET) {
					Block dst(n, 0); memset(dst.p, 0xCC, n);
					int rc; { Sut s; rc = mpt_queue_get(&q, pos, n, dst.p); }
					log.ev("GET pos=%zu len=%zu -> %d", pos, n, rc);
					if (!valid) { if (rc >= 0 && n) fail("accepted-underflow", "get(%zu,%zu) accepted with %zu stored", pos, n, stored); }
					else if (rc < 0) fail("refused-valid", "get(%zu,%zu) refused (%d) with %zu stored", pos, n, rc, stored);
					else for (size_t i = 0; i < n; ++i) if (dst.p[i] != d[pos + i]) fail("read", "get(%zu,%zu): byte %zu is %02x, stored %02x", pos, n, i, dst.p[i], d[pos + i]);
					abstract(op.kind, rc < 0 ? 0 : 1, n);
				} else {
					Bytes data(n); for (auto &b : data) b = nextbyte();
					Block src(n, 0); if (n) memcpy(src.p, data.data(), n);
					int rc; { Sut s; rc = mpt_queue_set(&q, pos, n, src.p); }
					log.ev("SET pos=%zu len=%zu -> %d", pos, n, rc);
					if (!valid) { if (rc >= 0 && n) fail("accepted-underflow", "set(%zu,%zu) accepted with %zu stored", pos, n, stored); }
					else if (rc < 0) fail("refused-valid", "set(%zu,%zu) refused (%d) with %zu stored", pos, n, rc, stored);
					else for (size_t i = 0; i < n; ++i) d[pos + i] = data[i];
					abstract(op.kind, rc < 0 ? 0 : 1, n);
				}
				break;
			}
			case OP_ALIGN: {
				size_t pos = (op.a & 1) ? 0 : (size_t) op.c % (q.max + 2);
				{ Sut s; mpt_queue_align(&q, pos); }
				log.ev("ALIGN %zu -> off=%zu", pos, q.off);
				abstract(op.kind, q.off == pos, 0);
				break;
			}
			case OP_RESIZE: case OP_PREPARE: {
				size_t want = (op.a & 7) == 0 ? 0 : (size_t) op.c % 2300;
				bool huge = (op.a & 7) == 7 && (op.c % 5) == 0;      // a size no allocation can satisfy: must be refused, nothing may change
				if (huge) { want = SIZE_MAX - (size_t) (op.c % 64); st.hit("probe:huge_size_requested"); }
				size_t max0 = q.max;
				uint64_t fired; void *r = 0; size_t got = 0;
				if (op.kind == OP_RESIZE) { Sut s(failn); r = mpt_queue_resize(&q, want); fired = g.fired; }
				else { Sut s(failn); got = mpt_queue_prepare(&q, want); fired = g.fired; }
				if (fired) st.hit("fault:allocfail");
				log.ev("%s %zu%s -> %s max=%zu len=%zu", OPS[op.kind], want, fired ? " allocfail" : "", op.kind == OP_RESIZE ? (r ? "ok" : "null") : (got ? "ok" : "0"), q.max, q.len);
				if (huge) {
					if (op.kind == OP_RESIZE ? r != 0 : got != 0) fail("accepted-overflow", "%s(%zu) reports success", OPS[op.kind], want);
					if (q.max != max0 || q.len != stored) fail("lost-on-refusal", "%s(%zu) was refused but left capacity %zu (was %zu) and %zu bytes (were %zu)", OPS[op.kind], want, q.max, max0, q.len, stored);
				}
				else if (op.kind == OP_RESIZE) {
					if (!want) { d.clear(); if (q.max || q.len) fail("state", "resize(0) left max=%zu len=%zu", q.max, q.len); }
					else if (r && want < stored) d.erase(d.begin(), d.begin() + (stored - want)); // documented: removes from the start
					else if (!r && !fired) fail("refused-valid", "resize(%zu) failed without allocation fault", want);
					else if (!r && q.len != stored) fail("lost-on-refusal", "resize(%zu) reports failure but %zu of the %zu stored bytes are gone", want, stored - q.len, stored);
					if (r && q.max != want) fail("state", "resize(%zu) gives max=%zu", want, q.max);
				} else {
					if (!fired && q.max - q.len < want) fail("refused-valid", "prepare(%zu) leaves %zu free", want, q.max - q.len);
				}
				if (!q.max) {
					// storage gone: give the queue a new block so the history continues
					q.base = malloc(cap); q.max = cap; q.off = q.len = 0; d.clear();
				}
				abstract(op.kind, fired ? 2 : 1, want);
				break;
			}
			case OP_FIND: {
				size_t esz = 1 + (size_t) op.c % 4;
				if (stored < esz) break;
				size_t k = ((size_t) op.c / 4) % (stored / esz);
				uint8_t needle[4]; for (size_t i = 0; i < esz; ++i) needle[i] = (op.a & 1) ? d[k * esz + i] : 0xFD;
				FindArg fa{needle, esz, 0};
				void *r; { Sut s; errno = 0; r = mpt_queue_find(&q, esz, find_cmp, &fa); }
				int e = errno;
				// expected: first element (logical order) equal to the needle
				ssize_t first = -1;
				for (size_t j = 0; j + esz <= stored && first < 0; j += esz) { bool eq = true; for (size_t i = 0; i < esz; ++i) if (d[j + i] != needle[i]) eq = false; if (eq) first = (ssize_t) j; }
				log.ev("FIND esz=%zu -> %s errno=%d expected %zd", esz, r ? "hit" : "null", r ? 0 : e, first);
				if (r) {
					size_t phys = (size_t) ((uint8_t *) r - (uint8_t *) q.base);
					size_t logical = (phys + q.max - q.off) % q.max;
					if (first < 0) fail("read", "find reports an element at %zu, none matches", logical);
					if ((size_t) first != logical) fail("read", "find reports element at %zu, first match is at %zd", logical, first);
				} else if (first >= 0 && e != ENOTSUP) fail("read", "find misses the element at %zd (errno %d)", first, e);
				abstract(op.kind, r ? 1 : 0, esz);
				break;
			}
			case OP_STRING: {
				char *sp; { Sut s; sp = mpt_queue_string(&q); }
				log.ev("STRING -> %s", sp ? "ok" : "null");
				if (!sp) { if (fre) fail("refused-valid", "string view refused with %zu free", fre); }
				else {
					for (size_t i = 0; i < stored; ++i) if ((uint8_t) sp[i] != d[i]) fail("read", "string view byte %zu is %02x, stored %02x", i, (uint8_t) sp[i], d[i]);
					if (sp[stored]) fail("read", "string view not terminated");
				}
				abstract(op.kind, sp ? 1 : 0, 0);
				break;
			}
			case OP_LOAD: {
				simio::Chan *c = simio::chan(lch);
				size_t avail = 1 + (size_t) op.c % 40;
				for (size_t i = 0; i < avail; ++i) c->avail.push_back(nextbyte());
				std::deque<uint8_t> offered = c->avail;
				static const int map[] = {0, 0, simio::F_SHORT, simio::F_EAGAIN, simio::F_EIO};
				simio::get(lfd)->rfault = op.fault >= FL_SHORT ? map[op.fault] : 0; simio::get(lfd)->rfa = op.fa;
				if (op.fault >= FL_SHORT) st.hit(std::string("fault:readv_") + FAULTS[op.fault]);
				size_t lim = (op.a & 1) ? 0 : n;
				ssize_t rc; { Sut s; rc = mpt_queue_load(&q, lfd, lim); }
				simio::get(lfd)->rfault = 0;
				size_t taken = offered.size() - c->avail.size();
				log.ev("LOAD lim=%zu%s -> %zd (descriptor gave %zu, free was %zu)", lim, op.fault ? FAULTS[op.fault] : "", rc, taken, fre);
				if (rc > 0) {
					if ((size_t) rc != taken) fail("content", "load reports %zd bytes, descriptor delivered %zu", rc, taken);
					if ((size_t) rc > fre || (lim && (size_t) rc > lim)) fail("accepted-overflow", "load took %zd bytes with %zu free, limit %zu", rc, fre, lim);
					for (size_t i = 0; i < taken; ++i) d.push_back(offered[i]);
				} else if (taken) fail("content", "load reports %zd but consumed %zu bytes from the descriptor", rc, taken);
				c->avail.clear();
				abstract(op.kind, rc > 0 ? 1 : 0, lim);
				break;
			}
			case OP_SAVE: {
				simio::Chan *c = simio::chan(sch);
				c->wire.clear();
				static const int map[] = {0, 0, simio::F_SHORT, simio::F_EAGAIN, simio::F_EIO};
				simio::get(sfd)->wfault = op.fault >= FL_SHORT ? map[op.fault] : 0; simio::get(sfd)->wfa = op.fa;
				if (op.fault >= FL_SHORT) st.hit(std::string("fault:writev_") + FAULTS[op.fault]);
				ssize_t rc; { Sut s; rc = mpt_queue_save(&q, sfd); }
				simio::get(sfd)->wfault = 0;
				size_t wrote = c->wire.size();
				log.ev("SAVE%s -> %zd (descriptor accepted %zu of %zu)", op.fault ? FAULTS[op.fault] : "", rc, wrote, stored);
				if (wrote > stored) fail("content", "save wrote %zu bytes with %zu stored", wrote, stored);
				for (size_t i = 0; i < wrote; ++i) if (c->wire[i] != d[i]) fail("read", "save wrote %02x at %zu, stored is %02x", c->wire[i], i, d[i]);
				if (rc > 0 && (size_t) rc != wrote) fail("content", "save reports %zd, descriptor accepted %zu", rc, wrote);
				if (rc <= 0 && wrote) fail("content", "save reports %zd but %zu bytes went out", rc, wrote);
				d.erase(d.begin(), d.begin() + wrote);
				abstract(op.kind, rc > 0 ? 1 : 0, wrote);
				break;
			}
			case OP_QUERY: {
				size_t low = 0, high = 0, dl = 0;
				void *e, *dp; { Sut s; e = mpt_queue_empty(&q, &low, &high); dp = mpt_queue_data(&q, &dl); }
				log.ev("QUERY empty=%s low=%zu high=%zu data first=%zu", e ? "ok" : "null", low, high, dl);
				if (e) {
					if (low + high != fre) fail("state", "empty parts %zu+%zu, free is %zu", low, high, fre);
					uint8_t *b = (uint8_t *) q.base, *ep = (uint8_t *) e;
					if (ep < b || ep + low > b + q.max) fail("bounds", "empty part [%zd,+%zu) leaves the storage of %zu bytes", ep - b, low, q.max);
				} else if (fre) fail("refused-valid", "no empty part reported with %zu free", fre);
				if (dp) { uint8_t *b = (uint8_t *) q.base; if ((uint8_t *) dp < b || (uint8_t *) dp + dl > b + q.max || dl > stored) fail("bounds", "data part leaves the storage"); }
				if (stored) {
					// the first data part is the longest run of stored bytes that lies in one piece, starting with the oldest byte
					size_t plow, phigh; segs(plow, phigh);
					if (!dp || dl != plow) fail("read", "first data part has %zu bytes, %zu of the %zu stored bytes lie in one piece at the start (off=%zu max=%zu)", dp ? dl : (size_t) 0, plow, stored, q.off, q.max);
					for (size_t i = 0; i < dl; ++i) if (((uint8_t *) dp)[i] != d[i]) fail("read", "first data part holds %02x at %zu, a deque holds %02x", ((uint8_t *) dp)[i], i, d[i]);
				}
				abstract(op.kind, 1, 0);
				break;
			}
			case OP_CXX: cxx_episode(op, failn, log, st); break;
			}
			verify(OPS[op.kind]);
		}
		log.ev("END len=%zu", q.len);
	}

	// short history on a C++ io::queue (owns and grows its storage) against its own deque
	void cxx_episode(const Op &op, uint64_t failn, Log &log, Stats &st) {
		io::queue *cq;
		{ Sut s; cq = new io::queue((size_t) op.c % 20); }
		std::deque<uint8_t> d;
		uint32_t x = (uint32_t) op.c * 2654435761u + 12345u;
		uint8_t ser = 1;
		for (int i = 0; i < 12; ++i) {
			x = x * 1664525u + 1013904223u;
			unsigned k = (x >> 24) % 7; size_t n = 1 + (x >> 16) % 9;
			uint8_t buf[16];
			if (k >= 5) {
				// the I/O device face of the queue: write appends blocks, read takes blocks from the front - the bytes peek() shows, in the order they were written
				size_t part = 1 + (x >> 8) % 4, cnt = 1 + (x >> 12) % 4; uint8_t big[16];
				if (k == 5) {
					for (size_t j = 0; j < part * cnt; ++j) big[j] = ser++ ? ser : ++ser;
					ssize_t w; uint64_t fired; { Sut s(i == 3 ? failn : 0); w = cq->write(cnt, big, part); fired = g.fired; }
					if (fired) st.hit("fault:allocfail");
					log.ev("  cxx write %zu x %zu -> %zd%s", cnt, part, w, fired ? " allocfail" : "");
					if (w < 0 || (size_t) w > cnt) fail("content", "C++ queue write of %zu blocks reports %zd", cnt, w);
					if ((size_t) w < cnt && !fired) fail("refused-valid", "C++ queue write of %zu blocks of %zu bytes took only %zd without allocation fault", cnt, part, w);
					d.insert(d.end(), big, big + (size_t) w * part);
				} else {
					memset(big, 0xCC, sizeof big);
					ssize_t r; { Sut s; r = cq->read(cnt, big, part); }
					log.ev("  cxx read %zu x %zu -> %zd (stored %zu)", cnt, part, r, d.size());
					size_t can = std::min(cnt, d.size() / part);
					if (r < 0 || (size_t) r != can) fail("read", "C++ queue read of %zu blocks of %zu bytes returned %zd with %zu bytes stored", cnt, part, r, d.size());
					for (size_t b = 0; b < can; ++b) { for (size_t j = 0; j < part; ++j) { uint8_t w = d[j]; if (big[b * part + j] != w) fail("read", "C++ queue read block %zu byte %zu is %02x, the oldest stored bytes (what peek shows) have %02x there", b, j, big[b * part + j], w); } d.erase(d.begin(), d.begin() + (ptrdiff_t) part); }
				}
				if (cq->_d.len != d.size()) fail("content", "C++ queue holds %zu bytes, a deque would hold %zu", cq->_d.len, d.size());
				continue;
			}
			if ((k == 0 || k == 1) && !d.empty() && (x & 0x600) == 0x600) {
				// what is pushed is part of what the queue holds (the pointer lies inside its own storage, which may move when it grows)
				span<const uint8_t> v; { Sut s; v = cq->peek(0); }
				size_t so = (size_t) (x >> 3) % d.size(), avail = (size_t) v.size() > so ? (size_t) v.size() - so : 0; size_t sl = avail ? 1 + (size_t) (x >> 5) % std::min<size_t>(avail, 30) : 0;
				if (sl) {
					std::vector<uint8_t> own(d.begin() + so, d.begin() + so + sl);
					bool ok; { Sut s; ok = k == 0 ? cq->push(v.begin() + so, sl) : cq->unshift(v.begin() + so, sl); }
					log.ev("  cxx %s %zu of its own bytes at %zu -> %d", k == 0 ? "push" : "unshift", sl, so, (int) ok); st.hit("probe:cxx_queue_push_own_content");
					if (!ok) fail("refused-valid", "C++ queue %s of %zu of its own bytes refused", k == 0 ? "push" : "unshift", sl);
					if (k == 0) d.insert(d.end(), own.begin(), own.end()); else d.insert(d.begin(), own.begin(), own.end());
					span<const uint8_t> w; { Sut s; w = cq->peek(0); }
					if ((size_t) w.size() != d.size()) { /* peek shows the first contiguous part only when the content wraps */ }
					for (size_t j = 0; j < (size_t) w.size() && j < d.size(); ++j) if (w.begin()[j] != d[j]) fail("read", "after a %s of its own bytes the C++ queue reads %02x at %zu, a deque holds %02x", k == 0 ? "push" : "unshift", w.begin()[j], j, d[j]);
				}
			} else if (k == 0 || k == 1) {
				for (size_t j = 0; j < n; ++j) buf[j] = ser++ ? ser : ++ser;
				bool ok; uint64_t fired;
				{ Sut s(i == 3 ? failn : 0); ok = k == 0 ? cq->push(buf, n) : cq->unshift(buf, n); fired = g.fired; }
				if (fired) st.hit("fault:allocfail");
				log.ev("  cxx %s %zu -> %d%s", k == 0 ? "push" : "unshift", n, (int) ok, fired ? " allocfail" : "");
				if (ok) { if (k == 0) d.insert(d.end(), buf, buf + n); else d.insert(d.begin(), buf, buf + n); }
				else if (!fired) fail("refused-valid", "C++ queue %s of %zu bytes refused without allocation fault", k == 0 ? "push" : "unshift", n);
			} else if (k == 2 || k == 3) {
				bool nodst = (x & 0x100) != 0;
				memset(buf, 0xCC, sizeof buf);
				bool ok; { Sut s; ok = k == 2 ? cq->pop(nodst ? 0 : buf, n) : cq->shift(nodst ? 0 : buf, n); }
				log.ev("  cxx %s %zu%s -> %d (stored %zu)", k == 2 ? "pop" : "shift", n, nodst ? " nodst" : "", (int) ok, d.size());
				if (n > d.size()) { if (ok) fail("accepted-underflow", "C++ queue %s of %zu bytes accepted with %zu stored", k == 2 ? "pop" : "shift", n, d.size()); }
				else if (ok) {
					for (size_t j = 0; j < n && !nodst; ++j) { uint8_t w = k == 2 ? d[d.size() - n + j] : d[j]; if (buf[j] != w) fail("read", "C++ queue %s returned %02x at %zu, a deque returns %02x", k == 2 ? "pop" : "shift", buf[j], j, w); }
					if (k == 2) d.erase(d.end() - n, d.end()); else d.erase(d.begin(), d.begin() + n);
				} else fail("refused-valid", "C++ queue %s of %zu bytes refused with %zu stored", k == 2 ? "pop" : "shift", n, d.size());
			} else {
				span<const uint8_t> v; { Sut s; v = cq->peek(0); }
				if ((size_t) v.size() != d.size()) fail("read", "C++ queue peek shows %zu bytes, %zu stored", (size_t) v.size(), d.size());
				for (size_t j = 0; j < d.size(); ++j) if (v.begin()[j] != d[j]) fail("read", "C++ queue peek byte %zu is %02x, stored %02x", j, v.begin()[j], d[j]);
			}
			if (cq->_d.len != d.size()) fail("content", "C++ queue holds %zu bytes, a deque would hold %zu", cq->_d.len, d.size());
			if (i == 6 && (op.c & 32)) {
				// a copy of the queue is a queue of its own: what is taken from it or put into it, and its going away, leave the first one as it is
				io::queue *cp; { Sut s; cp = new io::queue(*cq); }
				span<const uint8_t> v0; { Sut s; v0 = cp->peek(0); }
				if ((size_t) v0.size() != d.size()) fail("content", "a copy of a C++ queue of %zu bytes shows %zu bytes", d.size(), (size_t) v0.size());
				for (size_t j = 0; j < d.size(); ++j) if (v0.begin()[j] != d[j]) fail("content", "a copy of a C++ queue differs from it at byte %zu", j);
				uint8_t junk[4] = {0xF1, 0xF2, 0xF3, 0xF4}; size_t take = std::min<size_t>(d.size(), 3);
				{ Sut s; if (take) cp->pop(0, take); cp->push(junk, 4); cp->unshift(junk, 2); }
				{ Sut s; delete cp; }
				span<const uint8_t> v; { Sut s; v = cq->peek(0); }
				if ((size_t) v.size() != d.size()) fail("content", "after a copy of it was changed and destroyed the C++ queue shows %zu bytes, %zu stored", (size_t) v.size(), d.size());
				for (size_t j = 0; j < d.size(); ++j) if (v.begin()[j] != d[j]) fail("content", "after a copy of it was changed and destroyed the C++ queue reads %02x at byte %zu, stored %02x", v.begin()[j], j, d[j]);
				log.ev("  cxx copy changed and destroyed (%zu bytes stored)", d.size()); st.hit("probe:cxx_queue_copied");
			}
		}
		{ Sut s; delete cq; }
		if (op.c & 64) {
			// typed pipe: several handles on one counted queue; a handle that goes away takes nothing with it while another one is left
			pipe<int> *a; { Sut s; a = new pipe<int>(); }
			int n = 1 + (int) (op.c % 5); bool okp = true; for (int k = 0; k < n; ++k) { Sut s; okp = a->push(k + 1) && okp; }
			if (okp) {
				{ reference<pipe<int>::instance> r; { Sut s; r = a->ref(); } pipe<int> *b; { Sut s; b = new pipe<int>(r.detach()); } { Sut s; delete b; } }
				int got = 0, val = 0; while (got <= n) { bool m; { Sut s; m = a->shift(&val); } if (!m) break; ++got; if (val != got) fail("content", "typed pipe element %d reads %d", got, val); }
				if (got != n) fail("content", "a typed pipe of %d elements holds %d after a second handle on its queue went away", n, got);
				st.hit("probe:cxx_pipe_second_handle");
			}
			{ Sut s; delete a; }
		}
	}
};

namespace sim { World *the_world() { static RingWorld w; return &w; } }
