// world `hostile` (C03): a sender emits valid frames (reference encoder), the
// network task corrupts and re-segments them, the five real decoders are called
// directly on harness-owned vectors and resumed after every return code.
#include "worlds/common.hpp"
#include "kernel/simio.hpp"
#include <poll.h>
#include <fcntl.h>

using namespace sim;
using namespace mpt;

enum { OP_ARRIVE, OP_DECODE, OP_PEEK };
static const char *const OPS[] = {"ARRIVE", "DECODE", "PEEK", 0};
static const char *const FAULTS[] = {"none", 0};

static const uint8_t ALPHA[11] = {0x00, 0x01, 0x02, 0x1f, 0x20, 0xde, 0xdf, 0xe0, 0xe1, 0xfe, 0xff};

struct HostileWorld : World {
	const char *name() const override { return "hostile"; }
	const char *const *opnames() const override { return OPS; }
	const char *const *faultnames() const override { return FAULTS; }
	const char *const *shrinkable_cfg() const override { static const char *const k[] = {"nvec", "s1", "s2", "s3", "mis", "grant", "qoff", "qcap", 0}; return k; }
	const char *components_json() const override {
		return "{\"real\":[\"mpt_decode_cobs\",\"mpt_decode_cobs_r\",\"mpt_decode_cobs_zpe\",\"mpt_decode_cobs_zpe_r\",\"mpt_decode_command\",\"mpt_message_read (inside the decoders)\"],"
		       "\"stub\":[\"sender = independent reference encoders\",\"network task applying bit flips, drops, duplications, zero insertion, truncation, splices, swaps, garbage\","
		       "\"input vectors = exact-size heap blocks re-cut for every call\",\"strict reference decoder as oracle\"]}";
	}

	// ---------------------------------------------------------------- generation
	void gen(Rng &r, Plan &p, int tier) override {
		int framing = (int) r.below(5);
		p.set("framing", framing);
		p.set("nvec", r.range(1, 4));
		p.set("s1", r.range(0, 300)); p.set("s2", r.range(0, 300)); p.set("s3", r.range(0, 300));
		p.set("mis", r.range(0, 15));
		p.set("grant", r.chance(1, 2) ? 8 : r.range(1, 40));
		p.set("insist", r.chance(1, 3) ? 1 : 0);  // after an error the decoder is called again as it is (up to 3 times) before the harness starts over behind the frame
		p.set("layer", r.chance(1, 3) ? 1 : 0);   // 1: the same bytes through a real decode queue (mpt_queue_recv/peek/shift)
		static const int caps[] = {4, 8, 16, 40, 64, 100, 300};
		p.set("qcap", r.pick(caps)); p.set("qoff", r.range(0, 300));
		Bytes stream;
		int kind = (int) r.below(10);
		int ncorrupt = 0;
		if (kind < 7) {
			int nfr = (int) r.range(1, 4);
			for (int i = 0; i < nfr; ++i) {
				Bytes m = gen_message(r, r.chance(1, 4) ? 300 : 40, framing != ref::COMMAND);
				Bytes f = ref::encode(framing, m);
				stream.insert(stream.end(), f.begin(), f.end());
			}
			ncorrupt = kind < 2 ? 0 : (int) r.range(1, 3);
			for (int c = 0; c < ncorrupt && !stream.empty(); ++c) {
				size_t at = r.below(stream.size());
				switch (r.below(8)) {
				case 0: stream[at] ^= (uint8_t) (1u << r.below(8)); break;                 // bit flip
				case 1: stream.erase(stream.begin() + at); break;                          // byte drop
				case 2: stream.insert(stream.begin() + at, stream[at]); break;             // duplicate
				case 3: stream.insert(stream.begin() + at, 0); break;                      // zero inserted
				case 4: stream.resize(at); break;                                          // truncation
				case 5: { size_t b = r.below(stream.size()); std::swap(stream[at], stream[b]); break; } // swap
				case 6: { size_t b = r.below(stream.size()); if (b < at) std::swap(at, b); stream.erase(stream.begin() + at, stream.begin() + b); break; } // splice
				default: stream[at] = r.pick(ALPHA); break;                                // boundary value
				}
			}
		} else if (kind < 9) {
			size_t n = (size_t) r.range(0, 40);
			for (size_t i = 0; i < n; ++i) stream.push_back(r.pick(ALPHA));
		} else {
			size_t n = (size_t) r.range(0, 300);
			for (size_t i = 0; i < n; ++i) stream.push_back((uint8_t) (r.chance(1, 8) ? 0 : r.below(256)));
		}
		if (r.chance(1, 6)) {
			// layer 2: a real reader stream on a simulated descriptor gets well-formed frames with stray delimiters between them (the one kind of
			// damage whose outcome the statement fixes for every frame: the frames arrive, the stray delimiters are errors or nothing)
			p.set("layer", 2); if (framing == ref::COMMAND) { framing = (int) r.below(4); p.set("framing", framing); }
			stream.clear(); ncorrupt = 0;
			int nfr = (int) r.range(1, 5);
			for (int i = 0; i < nfr; ++i) {
				for (int z = (int) r.below(3) == 0 ? (int) r.range(1, 2) : 0; z > 0; --z) { stream.push_back(0); ++ncorrupt; }
				Bytes m = gen_message(r, r.chance(1, 6) ? 120 : 20, true); if (m.empty()) m.push_back((uint8_t) r.range(1, 255));
				Bytes f = ref::encode(framing, m); stream.insert(stream.end(), f.begin(), f.end());
			}
			if (r.chance(1, 3)) { stream.push_back(0); ++ncorrupt; }
		}
		if (stream.size() > 300 && p.get("layer") != 2) stream.resize(300);
		p.set("corruptions", ncorrupt);
		p.blobs.push_back(stream);
		int nops = (int) r.range(0, 60);
		int style = (int) r.below(3);
		for (int i = 0; i < nops; ++i) {
			Op op; unsigned k = (unsigned) r.below(10);
			if (k < 4) { op.kind = OP_ARRIVE; op.a = style == 0 ? 1 : style == 1 ? r.range(1, 4) : edgy(r, 100); if (op.a < 1) op.a = 1; }
			else if (k < 9) op.kind = OP_DECODE;
			else op.kind = OP_PEEK;
			p.ops.push_back(op);
		}
	}
	// exhaustive strings over the boundary alphabet: length 0..L, 5 decoders, 3 delivery modes
	static uint64_t pow11(unsigned n) { uint64_t v = 1; while (n--) v *= 11; return v; }
	uint64_t sweep_count(int tier) override {
		unsigned L = tier ? 6 : 4;
		uint64_t total = 0; for (unsigned l = 0; l <= L; ++l) total += pow11(l);
		return total * 5 * 3;
	}
	void sweep_plan(uint64_t idx, int tier, Plan &p) override {
		unsigned mode = idx % 3; idx /= 3;
		unsigned framing = idx % 5; idx /= 5;
		unsigned l = 0; while (idx >= pow11(l)) { idx -= pow11(l); ++l; }
		Bytes s;
		for (unsigned i = 0; i < l; ++i) { s.push_back(ALPHA[idx % 11]); idx /= 11; }
		p.set("framing", framing); p.set("nvec", mode == 2 ? 2 : 1); p.set("s1", l / 2); p.set("s2", 0); p.set("s3", 0);
		p.set("mis", (l * 7 + framing) & 15); p.set("grant", 8); p.set("corruptions", 0); p.set("layer", 0);
		p.blobs.push_back(s);
		if (mode == 1) for (unsigned i = 0; i < l; ++i) { Op a; a.kind = OP_ARRIVE; a.a = 1; p.ops.push_back(a); Op d; d.kind = OP_DECODE; p.ops.push_back(d); }
	}

	struct Fr { size_t beg, end; int verdict; Bytes msg; };
	static const std::vector<Fr> &frames_of(const std::vector<Fr> &f) { return f; }
	// ---------------------------------------------------------------- frames with stray delimiters through a real reader stream
	struct SRx { std::vector<Bytes> got; Log *log; };
	static int stream_msg(void *arg, const message *m) {
		Harness h; SRx *rx = (SRx *) arg; message tmp = *m; size_t len = mpt_message_length(&tmp); Bytes b(len); mpt_message_read(&tmp, len, b.data());
		rx->log->ev("  message %zu bytes %s", len, sim::hex(b, 12).c_str()); rx->got.push_back(b); return 0;
	}
	void exec_stream(const Plan &p, int framing, const Bytes &bytes, const std::vector<Fr> &frames, Log &log, Stats &st) {
		st.hit("layer:stream");
		int ch = simio::new_chan(1 << 16); int fd = simio::new_fd(ch, -1, O_RDONLY | O_NONBLOCK);
		stream rs; socket sk; sk._id = fd;
		int rc; { Sut s; rc = mpt_stream_dopen(&rs, &sk, stream::Buffer); } sk._id = -1;
		if (rc < 0) fail("setup", "mpt_stream_dopen on the simulated descriptor failed (%d)", rc);
		rs._rd._dec = decoder_for(framing);
		SRx rx; rx.log = &log; size_t fed = 0; int errors = 0;
		// the reader follows the protocol of the library's own loop: ask for input, dispatch, dispatch again only while told to (Retry)
		auto turn = [&]() {
			int pr; { Sut s; pr = mpt_stream_poll(&rs, POLLIN, 0); }
			if (pr <= 0) return false;
			int d, more = 0; { Sut s; d = mpt_stream_dispatch(&rs, stream_msg, &rx); } check_pending();
			log.ev("DISPATCH -> %d", d); if (d < 0) ++errors;
			// (again while told to, and - this reader's policy - again after an error that was reported to it: what it cannot make up for is an
			// error that was neither reported nor answered with a request to call again)
			while (((d >= 0 && (d & 0x10000)) || d < 0) && ++more < 256) { { Sut s; d = mpt_stream_dispatch(&rs, stream_msg, &rx); } check_pending(); log.ev("DISPATCH (again) -> %d", d); if (d < 0) { if (++errors > 32) break; } }
			return true;
		};
		for (const Op &op : p.ops) {
			if (op.kind == OP_ARRIVE) { size_t n = std::min<size_t>((size_t) std::max<int64_t>(op.a, 1), bytes.size() - fed); simio::Chan *c = simio::chan(ch); for (size_t i = 0; i < n; ++i) c->wire.push_back(bytes[fed++]); simio::deliver(ch, n); log.ev("ARRIVE %zu", n); st.hit("op:ARRIVE"); }
			else { st.hit("op:DECODE"); turn(); }
		}
		{ simio::Chan *c = simio::chan(ch); while (fed < bytes.size()) c->wire.push_back(bytes[fed++]); simio::deliver(ch, 1 << 20); }
		for (int i = 0; i < 64 && turn(); ++i) { }
		// every well-formed frame arrives, in order, with its bytes; a stray delimiter is an error or nothing, never a message
		std::vector<Bytes> want; for (auto &f : frames) if (f.verdict == ref::WELL) want.push_back(f.msg);
		for (size_t i = 0; i < rx.got.size(); ++i) {
			if (i >= want.size()) fail("invented", "%s reader stream delivered %zu messages, the input holds %zu well-formed frames (extra one: %s)", ref::framing_name(framing), rx.got.size(), want.size(), sim::hex(rx.got[i], 12).c_str());
			if (rx.got[i] != want[i]) fail("wrong-message", "%s reader stream: message %zu arrives as %s, the frame holds %s", ref::framing_name(framing), i, sim::hex(rx.got[i], 12).c_str(), sim::hex(want[i], 12).c_str());
		}
		if (rx.got.size() < want.size()) fail("no-verdict", "%s reader stream: all %zu bytes have arrived and no more input is reported, %zu of the %zu well-formed frames were delivered (%d errors reported); the next one waits in the read buffer", ref::framing_name(framing), bytes.size(), rx.got.size(), want.size(), errors);
		st.hit("frames:wellformed_delivered", (uint64_t) want.size());
		{ Sut s; mpt_stream_close(&rs); }
		if (ledger_live()) fail("leak", "%zu block(s) allocated by the reader stream after close", ledger_live());
	}
	// ---------------------------------------------------------------- the same hostile bytes through a real decode queue
	void exec_queue(const Plan &p, int framing, const Bytes &stream, const std::vector<Fr> &frames, Log &log, Stats &st) {
		decode_queue dq(decoder_for(framing));
		size_t cap = (size_t) std::min<int64_t>(std::max<int64_t>(p.get("qcap", 64), 4), 4096);
		dq.base = malloc(cap); memset(dq.base, 0xEE, cap); dq.max = cap; dq.len = 0; dq.off = (size_t) std::max<int64_t>(p.get("qoff"), 0) % cap;
		struct Free { queue &q; ~Free() { free(q.base); q.base = 0; q.max = q.len = 0; } } fr{dq};
		st.hit("layer:queue");
		size_t fed = 0, frames_done = 0, drop_to = 0; uint64_t calls = 0;
		auto grow = [&](size_t need) { size_t got; { Sut s; got = mpt_queue_prepare(&dq, need); } return got; };
		auto arrive = [&](size_t n) {
			n = std::min(n, stream.size() - fed);
			for (size_t i = 0; i < n; ++i, ++fed) {
				if (fed < drop_to) continue;
				if (dq.len == dq.max) { { Sut s; mpt_queue_shift(&dq); } if (dq.len == dq.max && !grow(64)) fail("state", "queue cannot grow"); }
				int rc; { Sut s; rc = mpt_qpush(&dq, 1, &stream[fed]); }
				if (rc < 0) fail("state", "qpush refused with %zu free", dq.max - dq.len);
			}
			log.ev("ARRIVE %zu -> queue %zu/%zu off=%zu", n, dq.len, dq.max, dq.off);
		};
		auto resync = [&]() {
			drop_to = frames_done < frames.size() ? frames[frames_done].end : stream.size();
			++frames_done;
			{ Sut s; mpt_queue_crop(&dq, 0, dq.len); }
			dq._state = decode_state();
			for (size_t i = drop_to; i < fed; ++i) { if (dq.len == dq.max) grow(64); Sut s; mpt_qpush(&dq, 1, &stream[i]); }
			log.ev("RESYNC to stream offset %zu", drop_to);
		};
		auto step = [&](bool peek) -> bool {
			++calls;
			if (peek) {
				if (!dq.len) return false;
				uint8_t buf[64]; ssize_t r; { Sut s; SUT_GUARD_ABORT(r = mpt_queue_peek(&dq, sizeof buf, buf)); }
				log.ev("PEEK -> %zd", r); st.hit("op:PEEK");
				if (dq._state.curr > dq.len) fail("state", "after peek: position %zu beyond queue %zu", dq._state.curr, dq.len);
				return true;
			}
			st.hit("op:DECODE");
			int rc; { Sut s; SUT_GUARD_ABORT(rc = mpt_queue_recv(&dq)); }
			const decode_state &ds = dq._state;
			log.ev("RECV -> %d curr=%zu pos=%zu len=%zu msg=%zd qlen=%zu", rc, ds.curr, ds.data.pos, ds.data.len, ds.data.msg, dq.len);
			st.state(30, framing * 16 + (ds.data.msg >= 0 ? 2 : ds._ctx ? 1 : 0) * 4 + (dq.off + dq.len > dq.max ? 1 : 0), (unsigned) (rc < 0 ? 20 - (rc < -19 ? -19 : rc) : rc));
			if (rc >= 0 || rc == E_MissingBuffer) if (ds.curr > dq.len || ds.data.pos + ds.data.len > ds.curr)
				fail("state", "%s queue decoder state leaves the data: curr=%zu pos=%zu len=%zu, queue %zu (return %d)", ref::framing_name(framing), ds.curr, ds.data.pos, ds.data.len, dq.len, rc);
			if (rc == E_MissingBuffer) { st.hit("fault:decoder_needs_space"); grow((dq.max - dq.len) + 64); return true; }
			if (rc == E_MissingData && !dq.len) return false;
			if (rc > 0) {
				message m; struct iovec vec;
				int g; { Sut s; g = mpt_message_get(&dq, ds.data.pos, (size_t) ds.data.msg, &m, &vec); }
				if (g < 0) fail("state", "message window outside the queue");
				Bytes got((size_t) ds.data.msg); { Sut s; mpt_message_read(&m, got.size(), got.data()); }
				if (frames_done >= frames.size()) fail("invented", "%s queue delivered a message of %zu bytes although no complete frame is left", ref::framing_name(framing), got.size());
				const Fr &f = frames[frames_done];
				if (f.end > fed) fail("invented", "%s queue delivered a message before the frame's delimiter arrived", ref::framing_name(framing));
				if (f.verdict == ref::WELL && got != f.msg) {
					size_t d = 0; while (d < got.size() && d < f.msg.size() && got[d] == f.msg[d]) ++d;
					fail("wrong-message", "%s queue: well-formed frame %s decoded to %zu bytes, reference says %zu (first difference at %zu: got %s want %s)", ref::framing_name(framing),
					     sim::hex(stream.data() + f.beg, f.end - f.beg, 24).c_str(), got.size(), f.msg.size(), d, sim::hex(got.data() + d, got.size() - d, 6).c_str(), sim::hex(f.msg.data() + d, f.msg.size() - d, 6).c_str());
				}
				if (f.verdict == ref::MALFORMED) fail("malformed-accepted", "%s queue: malformed frame %s delivered as a message of %zu bytes", ref::framing_name(framing), sim::hex(stream.data() + f.beg, f.end - f.beg, 24).c_str(), got.size());
				st.hit(f.verdict == ref::WELL ? "frames:wellformed_delivered" : "frames:unspecified_delivered");
				++frames_done;
				return true;
			}
			if (rc < 0) {
				if (frames_done < frames.size() && frames[frames_done].end <= fed) {
					const Fr &f = frames[frames_done];
					if (f.verdict == ref::WELL) fail("wellformed-rejected", "%s queue: well-formed frame %s rejected with error %d", ref::framing_name(framing), sim::hex(stream.data() + f.beg, f.end - f.beg, 24).c_str(), rc);
					st.hit("frames:malformed_rejected");
				} else st.hit("frames:error_on_incomplete");
				resync();
				return true;
			}
			return false;
		};
		for (const Op &op : p.ops) {
			if (op.kind == OP_ARRIVE) { st.hit("op:ARRIVE"); arrive((size_t) std::max<int64_t>(op.a, 1)); }
			else if (op.kind == OP_DECODE) step(false);
			else step(true);
			if (calls > 2000) break;
		}
		arrive(stream.size());
		size_t bound = 6 * (frames.size() + 2) + stream.size() / 2 + 8, steps = 0;
		while (frames_done < frames.size()) {
			if (++steps > bound) fail("no-verdict", "%s queue: all input present, frame %zu (%s) neither delivered nor rejected after %zu calls (curr=%zu pos=%zu len=%zu queue %zu/%zu)", ref::framing_name(framing), frames_done,
			                          sim::hex(stream.data() + frames[frames_done].beg, frames[frames_done].end - frames[frames_done].beg, 24).c_str(), steps, dq._state.curr, dq._state.data.pos, dq._state.data.len, dq.len, dq.max);
			step(false);
		}
		for (int i = 0; i < 3; ++i) step(false);
	}
	// ---------------------------------------------------------------- execution
	void exec(const Plan &p, Log &log, Stats &st) override {
		const int framing = (int) p.get("framing") % 5;
		const Bytes &stream = p.blob(0);
		const unsigned mis = (unsigned) p.get("mis") & 15;
		size_t grant = (size_t) std::min<int64_t>(std::max<int64_t>(p.get("grant", 8), 1), 256);
		int nvec = (int) std::min<int64_t>(std::max<int64_t>(p.get("nvec", 1), 1), 4);
		size_t cutspec[3] = {(size_t) std::max<int64_t>(p.get("s1"), 0), (size_t) std::max<int64_t>(p.get("s2"), 0), (size_t) std::max<int64_t>(p.get("s3"), 0)};
		data_decoder_t dec = decoder_for(framing);
		log.ev("hostile framing=%s stream=%zu bytes %s nvec=%d", ref::framing_name(framing), stream.size(), sim::hex(stream, 40).c_str(), nvec);
		st.hit(std::string("framing:") + ref::framing_name(framing));
		if (p.get("corruptions")) st.hit("fault:wire_corruptions", (uint64_t) p.get("corruptions"));

		// frames of the stream as the strict reference sees them
		std::vector<Fr> frames;
		for (size_t b = 0, i = 0; i < stream.size(); ++i) if (!stream[i]) {
			Fr f; f.beg = b; f.end = i + 1;
			f.verdict = ref::decode(framing, stream.data() + b, f.end - b, f.msg);
			if (framing == ref::COMMAND) { Bytes m; m.push_back(0x04); m.push_back(' '); m.insert(m.end(), f.msg.begin(), f.msg.end()); f.msg = m; }
			frames.push_back(f); b = i + 1;
		}
		if (p.get("layer") == 2) { exec_stream(p, framing, stream, frames_of(frames), log, st); return; }
		if (p.get("layer")) { exec_queue(p, framing, stream, frames_of(frames), log, st); return; }
		const bool insist = p.get("insist") != 0;
		decode_state ds;
		Bytes vis;               // what the decoder sees: arrived bytes plus granted slack, decoded in place
		size_t fed = 0;          // stream bytes handed over so far
		size_t drop_to = 0;      // after an error: stream offset where the next frame starts
		size_t frames_done = 0;
		uint64_t calls = 0;

		auto arrive = [&](size_t n) {
			n = std::min(n, stream.size() - fed);
			for (size_t i = 0; i < n; ++i, ++fed) if (fed >= drop_to) vis.push_back(stream[fed]);
			log.ev("ARRIVE %zu -> visible %zu", n, vis.size());
		};
		auto call = [&](bool peek) -> int {
			// cut the visible bytes into vectors (exact-size blocks), call, copy back
			size_t n = vis.size();
			int nv = peek ? 1 : nvec;
			size_t bounds[5] = {0, n, n, n, n};
			for (int k = 1; k < nv; ++k) bounds[k] = std::min(n, std::max(bounds[k - 1], n ? cutspec[k - 1] % (n + 1) : 0));
			bounds[nv] = n;
			Block blk[4]; struct iovec vec[4];
			for (int k = 0; k < nv; ++k) {
				size_t len = bounds[k + 1] - bounds[k];
				blk[k].alloc(len, (mis + 5 * k) & 15);
				if (len) memcpy(blk[k].p, vis.data() + bounds[k], len);
				vec[k].iov_base = blk[k].p; vec[k].iov_len = len;
			}
			Bytes before = vis;
			decode_state sb = ds;
			int rc;
			++calls;
			{ Sut s; rc = dec(&ds, vec, peek ? 0 : (size_t) nv); }
			for (int k = 0; k < nv; ++k) if (blk[k].n) memcpy(vis.data() + bounds[k], blk[k].p, blk[k].n);
			log.ev("%s -> %d ctx=%lx curr=%zu pos=%zu len=%zu msg=%zd", peek ? "PEEK" : "DECODE", rc, (unsigned long) ds._ctx, ds.curr, ds.data.pos, ds.data.len, ds.data.msg);
			// state sanity (after an error other than "need space" the statement promises nothing about
			// the state: the harness resets the decoder, so nothing is demanded of it then)
			bool usable = rc >= 0 || rc == E_MissingBuffer;
			if (usable) if (ds.curr > vis.size() || ds.data.pos > ds.curr || ds.data.len > ds.curr - ds.data.pos)
				fail("state", "%s decoder state leaves the data: curr=%zu pos=%zu len=%zu, %zu bytes visible (return %d)", ref::framing_name(framing), ds.curr, ds.data.pos, ds.data.len, vis.size(), rc);
			if (usable && ds.data.msg >= 0 && (size_t) ds.data.msg > ds.data.len)
				fail("state", "message length %zd beyond decoded length %zu", ds.data.msg, ds.data.len);
			// write confinement: only the already consumed part may change
			size_t consumed = usable ? ds.curr : std::max(sb.curr, std::min(ds.curr, vis.size()));
			for (size_t i = 0; i < vis.size(); ++i) if (vis[i] != before[i] && i >= consumed)
				fail("write-ahead", "%s decoder changed byte %zu (%02x -> %02x) but has consumed only %zu bytes (return %d)", ref::framing_name(framing), i, before[i], vis[i], consumed, rc);
			int phase = ds.data.msg >= 0 ? 2 : (ds._ctx ? 1 : 0);
			size_t slack = usable ? ds.curr - ds.data.pos - ds.data.len : 0;
			st.state(20 + (peek ? 1 : 0), framing * 16 + phase * 4 + (slack > 2 ? 3 : (int) slack), (unsigned) (rc < 0 ? 20 - (rc < -19 ? -19 : rc) : rc) + 64 * nv);
			(void) sb;
			return rc;
		};
		// one decode step incl. judgement; returns false when nothing more can happen without new input
		auto step = [&](bool peek) -> bool {
			if (peek) { st.hit("op:PEEK"); call(true); return true; }
			st.hit("op:DECODE");
			int rc = call(false);
			if (rc == E_MissingBuffer) {
				st.hit("fault:decoder_needs_space");
				if (ds.curr > vis.size()) fail("state", "position beyond data");
				vis.insert(vis.begin() + ds.curr, grant, 0xAA);
				ds.curr += grant;
				log.ev("GRANT %zu at %zu", grant, ds.curr - grant);
				return true;
			}
			if (rc > 0) {
				if (ds.data.msg < 0) fail("state", "decoder returned %d without a message", rc);
				Bytes got(vis.begin() + ds.data.pos, vis.begin() + ds.data.pos + ds.data.msg);
				if (frames_done >= frames.size())
					fail("invented", "%s decoder delivered a message of %zu bytes (%s) although no complete frame is left in the input", ref::framing_name(framing), got.size(), sim::hex(got, 16).c_str());
				const Fr &f = frames[frames_done];
				if (f.end > fed) fail("invented", "%s decoder delivered a message before the frame's delimiter arrived (frame %zu)", ref::framing_name(framing), frames_done);
				if (f.verdict == ref::WELL && got != f.msg) {
					size_t d = 0; while (d < got.size() && d < f.msg.size() && got[d] == f.msg[d]) ++d;
					fail("wrong-message", "%s: well-formed frame %s decoded to %zu bytes, reference says %zu bytes (first difference at %zu: got %s want %s)", ref::framing_name(framing),
					     sim::hex(stream.data() + f.beg, f.end - f.beg, 24).c_str(), got.size(), f.msg.size(), d, sim::hex(got.data() + d, got.size() - d, 6).c_str(), sim::hex(f.msg.data() + d, f.msg.size() - d, 6).c_str());
				}
				if (f.verdict == ref::MALFORMED)
					fail("malformed-accepted", "%s: malformed frame %s was delivered as a message of %zu bytes (%s)", ref::framing_name(framing),
					     sim::hex(stream.data() + f.beg, f.end - f.beg, 24).c_str(), got.size(), sim::hex(got, 16).c_str());
				st.hit(f.verdict == ref::WELL ? "frames:wellformed_delivered" : "frames:unspecified_delivered");
				++frames_done;
				return true;
			}
			if (rc < 0) {
				// error: which frame was it working on?
				if (frames_done < frames.size() && frames[frames_done].end <= fed) {
					const Fr &f = frames[frames_done];
					if (f.verdict == ref::WELL)
						fail("wellformed-rejected", "%s: well-formed frame %s rejected with error %d", ref::framing_name(framing), sim::hex(stream.data() + f.beg, f.end - f.beg, 24).c_str(), rc);
					st.hit("frames:malformed_rejected");
				} else st.hit("frames:error_on_incomplete");
				// a caller that simply calls again: every call ends, stays inside the buffers, and whatever it delivers is the message of a
				// well-formed frame that lies behind the rejected one - never an earlier message again, never bytes no frame holds
				if (insist && frames_done < frames.size() && frames[frames_done].end <= fed) {
					for (int k = 0; k < 3; ++k) {
						st.hit("op:DECODE_AFTER_ERROR");
						int r2 = call(false);
						if (r2 <= 0) { if (r2 == 0 || r2 == E_MissingBuffer) break; continue; }
						if (ds.data.msg < 0 || ds.data.pos > vis.size() || (size_t) ds.data.msg > vis.size() - ds.data.pos)
							fail("invented", "%s decoder, called again after error %d, reports a message (%d) outside the data: pos=%zu msg=%zd, %zu bytes visible", ref::framing_name(framing), rc, r2, ds.data.pos, ds.data.msg, vis.size());
						Bytes got(vis.begin() + ds.data.pos, vis.begin() + ds.data.pos + ds.data.msg);
						bool known = false;
						for (size_t j = frames_done + 1; j < frames.size() && !known; ++j) if (frames[j].end <= fed && frames[j].verdict != ref::MALFORMED && (frames[j].verdict != ref::WELL || frames[j].msg == got)) known = true;
						if (!known) fail("invented", "%s decoder, called again after error %d on frame %zu, delivered %zu bytes (%s) that no frame behind it holds", ref::framing_name(framing), rc, frames_done, got.size(), sim::hex(got, 16).c_str());
						st.hit("probe:delivery_after_error_without_reset");
						break;
					}
				}
				// resynchronise (policy of the harness, not of the statement): fresh state, continue behind the delimiter
				drop_to = frames_done < frames.size() ? frames[frames_done].end : stream.size();
				++frames_done;
				vis.clear();
				for (size_t i = drop_to; i < fed; ++i) vis.push_back(stream[i]);
				ds = decode_state();
				log.ev("RESYNC to stream offset %zu", drop_to);
				return true;
			}
			return false; // incomplete
		};
		for (const Op &op : p.ops) {
			if (op.kind == OP_ARRIVE) { st.hit("op:ARRIVE"); arrive((size_t) std::max<int64_t>(op.a, 1)); }
			else if (op.kind == OP_DECODE) step(false);
			else if (vis.size()) step(true);
			if (calls > 2000) break;
		}
		// drain: everything arrives; every complete frame must get a verdict
		arrive(stream.size());
		size_t bound = 4 * (frames.size() + 2) + stream.size() / 2 + 8, steps = 0;
		while (frames_done < frames.size()) {
			if (++steps > bound)
				fail("no-verdict", "%s: all input present, decoder neither delivers nor rejects frame %zu (%s) after %zu calls (last state curr=%zu pos=%zu len=%zu, %zu visible)", ref::framing_name(framing),
				     frames_done, sim::hex(stream.data() + frames[frames_done].beg, frames[frames_done].end - frames[frames_done].beg, 24).c_str(), steps, ds.curr, ds.data.pos, ds.data.len, vis.size());
			step(false);
		}
		// trailing bytes without delimiter: must not turn into a message
		for (int i = 0; i < 3; ++i) step(false);
		if (ledger_live()) fail("leak", "%zu block(s) allocated by a decoder", ledger_live());
	}
};

namespace sim { World *the_world() { static HostileWorld w; return &w; } }
