// Reference codecs, written independently of mpt-base.
// COBS and COBS/R follow their published descriptions.  The zero-pair variant
// uses the *parameters* mpt-base documents for its wire format (it differs from
// the COBS paper's ZPE and has no other specification):
//   - codes 0x01..0xDF : (code-1) data bytes, implied single zero unless the
//                        code is 0xDF or the block is the last of the frame
//   - codes 0xE0..0xFF : (code-0xE0) data bytes followed by two zeros
#pragma once
#include <cstdint>
#include <vector>
#include <cstddef>

namespace ref {
typedef std::vector<uint8_t> Bytes;
enum Framing { COBS = 0, COBS_R = 1, ZPE = 2, ZPE_R = 3, COMMAND = 4 };
static inline const char *framing_name(int f) {
	static const char *n[] = {"cobs", "cobs/r", "cobs/zpe", "cobs/zpe+r", "command"};
	return (f >= 0 && f < 5) ? n[f] : "?";
}
static inline bool is_r(int f) { return f == COBS_R || f == ZPE_R; }
static inline bool is_zpe(int f) { return f == ZPE || f == ZPE_R; }
static inline unsigned maxcode(int f) { return is_zpe(f) ? 0xDF : 0xFF; }

// one-shot reference encoder (never uses pair codes across what it cannot see: it sees all)
static inline Bytes encode(int f, const Bytes &m) {
	Bytes out;
	if (f == COMMAND) { out = m; out.push_back(0); return out; }
	const unsigned MAX = maxcode(f);
	size_t codepos = 0; unsigned code = 1;
	out.push_back(0);
	bool last_closed_full = false;
	for (size_t i = 0; i < m.size(); ++i) {
		uint8_t b = m[i];
		last_closed_full = false;
		if (b) {
			out.push_back(b);
			if (++code == MAX) {
				out[codepos] = (uint8_t) code;
				codepos = out.size(); out.push_back(0); code = 1;
				last_closed_full = true;
			}
			continue;
		}
		if (is_zpe(f) && code > 1 && code < 32 && i + 1 < m.size() && m[i + 1] == 0) {
			out[codepos] = (uint8_t) (code - 1 + 0xE0);
			++i;
		} else {
			out[codepos] = (uint8_t) code;
		}
		codepos = out.size(); out.push_back(0); code = 1;
	}
	(void) last_closed_full;
	// final block
	if (is_r(f) && code > 1) {
		uint8_t e = out.back();
		bool ok = e > code && (!is_zpe(f) || (code <= MAX && e <= MAX));
		if (ok) { out[codepos] = e; out.pop_back(); out.push_back(0); return out; }
	}
	out[codepos] = (uint8_t) code;
	out.push_back(0);
	return out;
}

enum Verdict { WELL = 0, MALFORMED = 1, UNSPEC = 2 };
// strict decoder for one frame: `frame` ends with its (first) zero byte
static inline Verdict decode(int f, const uint8_t *fr, size_t n, Bytes &out) {
	out.clear();
	if (!n || fr[n - 1] != 0) return MALFORMED;
	if (f == COMMAND) { out.assign(fr, fr + n - 1); return WELL; }
	if (fr[0] == 0) return MALFORMED; // leading / double delimiter
	const unsigned MAX = maxcode(f);
	size_t i = 0;
	while (true) {
		unsigned c = fr[i++];
		if (!c) return i == n ? WELL : MALFORMED;
		unsigned nd = (is_zpe(f) && c >= 0xE0) ? c - 0xE0 : c - 1;
		for (unsigned k = 0; k < nd; ++k) {
			uint8_t b = fr[i];
			if (!b) {
				// zero inside a block: the frame delimiter (by construction the only zero)
				if (!is_r(f)) return MALFORMED;
				if (is_zpe(f) && c > MAX) return UNSPEC; // encoder never inlines above 0xDF
				out.push_back((uint8_t) c);
				return WELL;
			}
			out.push_back(b); ++i;
		}
		uint8_t next = fr[i];
		unsigned z = (is_zpe(f) && c >= 0xE0) ? 2 : ((c < MAX && next) ? 1 : 0);
		while (z--) out.push_back(0);
	}
}
static inline Verdict decode(int f, const Bytes &fr, Bytes &out) { return decode(f, fr.data(), fr.size(), out); }
}
