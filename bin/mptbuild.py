#!/usr/bin/env python3
"""Build mpt-base from /repo's current working tree as sanitized static archives,
then the simulator binary for one world.  No cmake: every source is compiled
directly so that an edited tree is always what runs.

Build directory is keyed by a SHA-256 over the *contents* of every source file
under /repo (not mtimes) plus the harness sources; only the newest key is kept.
"""
import hashlib, os, subprocess, sys, shutil, glob, time
from concurrent.futures import ThreadPoolExecutor

REPO = os.environ.get("VERIF_REPO", "/repo")
VERIF = os.path.dirname(os.path.dirname(os.path.abspath(__file__)))
BUILD = os.environ.get("VERIF_BUILD", os.path.join(VERIF, "build"))
JOBS = int(os.environ.get("VERIF_JOBS", "16"))

SAN = os.environ.get("VERIF_SAN", "").split() or ["-fsanitize=address,undefined", "-fno-sanitize-recover=undefined",
       "-fno-sanitize=alignment", "-fno-sanitize=vptr"]   # VERIF_SAN replaces the instrumentation (bin/coverage uses --coverage)
COMMON = ["-O1", "-g1", "-fno-omit-frame-pointer", "-DNDEBUG", "-w"]

CORE_DIRS = ["array", "client", "config", "convert", "event", "message", "meta",
             "node", "object", "output", "parse", "queue", "types", "misc"]
CXX_SRC = """array.cpp client.cpp collection.cpp config.cpp convertable.cpp event.cpp
identifier.cpp io.cpp io_buffer.cpp io_buffer_metatype.cpp io_queue.cpp logger.cpp
message.cpp meta_buffer.cpp meta_new.cpp metatype.cpp metatype_basic.cpp
metatype_create.cpp metatype_generic.cpp node.cpp node_new.cpp object.cpp output.cpp
parse.cpp property.cpp queue.cpp refcount_wrap.cpp std_cout.cpp type_traits_wrap.cpp
value.cpp color.cpp cycle.cpp destination.cpp graph.cpp graphic.cpp item_group.cpp
linepart.cpp layout.cpp mapping.cpp point.cpp polyline.cpp transform.cpp
value_store.cpp io_stream.cpp io_stream_input.cpp notify.cpp socket.cpp stream.cpp
""".split()


def repo_sources():
    libs = {}
    core = []
    for d in CORE_DIRS:
        core += sorted(glob.glob(f"{REPO}/mptcore/{d}/*.c"))
    core.append(f"{REPO}/mptcore/libinfo.c")
    libs["core"] = (core, ["-I", f"{REPO}/mptcore"])
    io = sorted(glob.glob(f"{REPO}/mptio/*.c")) + sorted(glob.glob(f"{REPO}/mptio/*/*.c"))
    libs["io"] = (io, ["-I", f"{REPO}/mptio", "-I", f"{REPO}/mptcore"])
    plot = sorted(glob.glob(f"{REPO}/mptplot/*.c")) + sorted(glob.glob(f"{REPO}/mptplot/*/*.c"))
    libs["plot"] = (plot, ["-I", f"{REPO}/mptplot", "-I", f"{REPO}/mptcore"])
    cxx = [f"{REPO}/mpt++/{f}" for f in CXX_SRC if os.path.exists(f"{REPO}/mpt++/{f}")]
    libs["cxx"] = (cxx, ["-I", f"{REPO}/mpt++", "-I", f"{REPO}/mptcore", "-I", f"{REPO}/mptplot",
                         "-I", f"{REPO}/mptio"])
    return libs


def _hash_files(files):
    h = hashlib.sha256()
    for f in sorted(files):
        h.update(f.encode())
        with open(f, "rb") as fp:
            h.update(hashlib.sha256(fp.read()).digest())
    return h.hexdigest()[:20]


def tree_hash():
    """(repo key, harness key): archives depend on the repo only"""
    files = []
    for root in ("mptcore", "mptio", "mptplot", "mpt++"):
        for dp, dn, fn in os.walk(os.path.join(REPO, root)):
            for f in fn:
                if f.endswith((".c", ".h", ".cpp")):
                    files.append(os.path.join(dp, f))
    for f in (f"{REPO}/version.h", f"{REPO}/libinfo.h", f"{REPO}/mpt.py"):
        if os.path.exists(f):
            files.append(f)
    files.append(os.path.abspath(__file__))
    sim = []
    for dp, dn, fn in os.walk(os.path.join(VERIF, "sim")):
        for f in fn:
            if f.endswith((".c", ".h", ".cpp", ".hpp")):
                sim.append(os.path.join(dp, f))
    return _hash_files(files), _hash_files(sim)


def run(cmd):
    p = subprocess.run(cmd, stdout=subprocess.PIPE, stderr=subprocess.STDOUT, text=True)
    return p.returncode, p.stdout, cmd


def compile_all(jobs_list):
    errs = []
    with ThreadPoolExecutor(JOBS) as ex:
        for rc, out, cmd in ex.map(run, jobs_list):
            if rc != 0:
                errs.append((cmd, out))
    return errs


def obj_name(src):
    rel = os.path.relpath(src, REPO).replace("/", "_").replace("+", "x")
    return rel + ".o"


def build_archives(bdir, variant, extra_defs, log):
    """variant: '' (shipped constants) or 'p16' (-D_MPT_BUFFER_PSTD=16)"""
    libs = repo_sources()
    out = {}
    jobs = []
    todo = {}
    for name, (srcs, inc) in libs.items():
        arch = os.path.join(bdir, f"lib{name}{variant}.a")
        out[name] = arch
        if os.path.exists(arch):
            continue
        odir = os.path.join(bdir, f"o_{name}{variant}")
        os.makedirs(odir, exist_ok=True)
        objs = []
        for s in srcs:
            o = os.path.join(odir, obj_name(s))
            objs.append(o)
            if s.endswith(".cpp"):
                cc = ["g++", "-std=gnu++17"]
            else:
                cc = ["gcc", "-std=gnu11"]
            jobs.append(cc + COMMON + SAN + extra_defs + inc + ["-c", s, "-o", o])
        todo[name] = (arch, objs, odir)
    if jobs:
        errs = compile_all(jobs)
        if errs:
            for cmd, o in errs[:5]:
                log("BUILD-ERROR: " + " ".join(cmd) + "\n" + o)
            return None
        for name, (arch, objs, odir) in todo.items():
            tmp = arch + ".tmp"
            rc, o, _ = run(["ar", "rcs", tmp] + objs)
            if rc != 0:
                log("BUILD-ERROR: ar " + o)
                return None
            if name == "cxx":
                # the library's C++ objects allocate through a seam of their own, so that the ledger sees what they create
                # and does not see what the harness allocates while a library call is on the stack
                rc, o, _ = run(["objcopy", "--redefine-sym", "_Znwm=__verif_lib_Znwm", "--redefine-sym", "_Znam=__verif_lib_Znam", tmp])
                if rc != 0:
                    log("BUILD-ERROR: objcopy " + o)
                    return None
            os.rename(tmp, arch)
            if not os.environ.get("VERIF_SAN"):       # a coverage build needs the .gcno files next to the objects
                shutil.rmtree(odir, ignore_errors=True)
    return out


WRAPS = ["malloc", "calloc", "realloc", "free", "strdup",
         "readv", "writev", "poll", "fcntl", "close", "dup", "getsockopt", "sendmsg", "recvmsg", "sendto", "epoll_create1",
         "_mpt_abort", "_ZdlPv", "_ZdlPvm", "_ZdaPv",
         # the type registry: entries live as long as the process (a world may book them to the process instead of the run)
         "mpt_type_traits", "mpt_interface_traits", "mpt_metatype_traits", "mpt_named_traits",
         "mpt_type_add", "mpt_type_basic_add", "mpt_type_metatype_add", "mpt_type_interface_add",
         # the C entry points libmpt++ overrides: per run the override or the C implementation (sim/kernel/cimpl_*.c)
         "mpt_meta_buffer", "mpt_meta_new", "mpt_node_new"]


def build_world(bdir, world, archives, variant, log):
    os.makedirs(bdir, exist_ok=True)
    exe = os.path.join(bdir, f"sim_{world}{variant}")
    if os.path.exists(exe):
        return exe
    inc = ["-I", f"{REPO}/mptcore", "-I", f"{REPO}/mptio", "-I", f"{REPO}/mptplot", "-I", f"{REPO}/mpt++",
           "-I", f"{VERIF}/sim", "-I", f"{REPO}/mptcore/types"]
    kdir = os.path.join(bdir, "o_kernel" + variant)
    os.makedirs(kdir, exist_ok=True)
    ksrc = sorted(glob.glob(f"{VERIF}/sim/kernel/*.cpp")) + sorted(glob.glob(f"{VERIF}/sim/kernel/*.c"))
    wsrc = f"{VERIF}/sim/worlds/{world}.cpp"
    wextra = sorted(glob.glob(f"{VERIF}/sim/worlds/{world}_*.c"))   # C helpers of a world (e.g. registry reset)
    defs = [f'-DVERIF_REPO="{REPO}"', f'-DVERIF_DIR="{VERIF}"']
    if variant == "p16":
        defs.append("-D_MPT_BUFFER_PSTD=16")
    jobs, objs = [], []
    for s in ksrc + [wsrc] + wextra:
        o = os.path.join(kdir, os.path.basename(s) + ".o")
        objs.append(o)
        if os.path.exists(o) and s != wsrc and s not in wextra:
            continue
        cc = ["g++", "-std=gnu++17"] if s.endswith(".cpp") else ["gcc", "-std=gnu11"]
        jobs.append(cc + ["-O1", "-g1", "-fno-omit-frame-pointer", "-Wall", "-Wno-unused-function",
                          "-Wno-unused-variable", "-Wno-unused-but-set-variable", "-Wno-sign-compare"]
                    + SAN + defs + inc + ["-c", s, "-o", o])
    errs = compile_all(jobs)
    if errs:
        for cmd, o in errs[:5]:
            log("BUILD-ERROR: " + " ".join(cmd) + "\n" + o)
        return None
    wraps = ["-Wl,--wrap=" + w for w in WRAPS]
    libs = [archives["cxx"], archives["io"], archives["plot"], archives["core"]]
    cmd = ["g++"] + SAN + objs + wraps + ["-Wl,--start-group"] + libs + ["-Wl,--end-group", "-lm", "-ldl", "-o", exe + ".tmp"]
    rc, o, _ = run(cmd)
    if rc != 0:
        log("BUILD-ERROR: link " + " ".join(cmd) + "\n" + o)
        return None
    os.rename(exe + ".tmp", exe)
    return exe


def prune(parent, keep):
    if not os.path.isdir(parent):
        return
    for d in os.listdir(parent):
        p = os.path.join(parent, d)
        if d != keep and os.path.isdir(p) and not d.startswith((".", "mptsim_", "lib", "o_")) and len(d) == 20:
            shutil.rmtree(p, ignore_errors=True)


def build(world, variants=("",), log=lambda s: print(s, file=sys.stderr)):
    """returns dict variant->exe path, or None on build failure"""
    rkey, skey = tree_hash()
    rdir = os.path.join(BUILD, rkey)
    sdir = os.path.join(rdir, skey)
    os.makedirs(rdir, exist_ok=True)
    # serialise concurrent builders
    import fcntl
    lock = open(os.path.join(BUILD, ".lock"), "w")
    fcntl.flock(lock, fcntl.LOCK_EX)
    try:
        prune(BUILD, rkey)
        prune(rdir, skey)
        res = {}
        for v in variants:
            defs = ["-D_MPT_BUFFER_PSTD=16"] if v == "p16" else []
            arch = build_archives(rdir, v, defs, log)
            if not arch:
                return None
            exe = build_world(sdir, world, arch, v, log)
            if not exe:
                return None
            res[v] = exe
        return res
    finally:
        fcntl.flock(lock, fcntl.LOCK_UN)
        lock.close()


if __name__ == "__main__":
    t = time.time()
    r = build(sys.argv[1], tuple(sys.argv[2:]) or ("",))
    print(r, "%.1fs" % (time.time() - t))
    sys.exit(0 if r else 2)
